/-
  C19 — Production weights are normalised per non-terminal, stable under re-extraction, and
  respected by the weight-aware choosers.

  Model: `GEVerif/Model/Weights.lean` (exact rationals: core `Rat`; the code as repaired).
  Everything is stated for ALL class hierarchies (any number of classes, any nesting of abstract
  classes, any subset weighted, zero weights included) satisfying the well-formedness condition
  `WF` (what `register_type` guarantees: parents are registered classes, builtins are neither
  productions nor weighted).
-/
import GEVerif.Model.Weights
import GEVerif.Props.C18

namespace GEVerif.C19
open GEVerif GEVerif.Weights

/-! ## Rational sums -/

private theorem sumOver_congr (f g : Nat → Rat) (cs : List Nat) (h : ∀ c ∈ cs, f c = g c) :
    sumOver f cs = sumOver g cs := by
  induction cs with
  | nil => rfl
  | cons c rest ih =>
    simp only [sumOver, List.map_cons, List.sum_cons] at ih ⊢
    rw [h c (by simp), ih (fun c hc => h c (by simp [hc]))]

private theorem sumOver_div (f : Nat → Rat) (t : Rat) (cs : List Nat) :
    sumOver (fun c => f c / t) cs = sumOver f cs / t := by
  induction cs with
  | nil => simp [sumOver]; grind
  | cons c rest ih =>
    simp only [sumOver, List.map_cons, List.sum_cons] at ih ⊢
    rw [ih]; grind

private theorem sumOver_double (f : Nat → Rat) (cs : List Nat) :
    sumOver (fun c => f c + 1 * f c) cs = 2 * sumOver f cs := by
  induction cs with
  | nil => simp [sumOver]
  | cons c rest ih =>
    simp only [sumOver, List.map_cons, List.sum_cons] at ih ⊢
    rw [ih]; grind

private theorem div_bounds (a s : Rat) (h0 : 0 ≤ a) (h1 : a ≤ s) (hs : 0 < s) :
    0 ≤ a / s ∧ a / s ≤ 1 := by
  have hi : 0 ≤ s⁻¹ := Rat.le_of_lt (Rat.inv_pos.mpr hs)
  rw [Rat.div_def]
  constructor
  · exact Rat.mul_nonneg h0 hi
  · have := Rat.mul_le_mul_of_nonneg_right h1 hi
    rwa [Rat.mul_inv_cancel s (by grind)] at this

private theorem sumOver_nonneg (f : Nat → Rat) (cs : List Nat) (hf : ∀ c ∈ cs, 0 ≤ f c) :
    0 ≤ sumOver f cs := by
  induction cs with
  | nil => simp [sumOver]
  | cons d rest ih =>
    simp only [sumOver, List.map_cons, List.sum_cons] at ih ⊢
    have := hf d (by simp)
    have := ih (fun c hc => hf c (by simp [hc]))
    grind

private theorem le_sumOver (f : Nat → Rat) (cs : List Nat) (hf : ∀ c ∈ cs, 0 ≤ f c) (c : Nat)
    (hc : c ∈ cs) : f c ≤ sumOver f cs := by
  induction cs with
  | nil => simp at hc
  | cons d rest ih =>
    have hrest := sumOver_nonneg f rest (fun c hc => hf c (by simp [hc]))
    simp only [sumOver, List.map_cons, List.sum_cons] at ih hrest ⊢
    rcases List.mem_cons.mp hc with h | h
    · subst h; grind
    · have := ih (fun c hc => hf c (by simp [hc])) h
      have := hf d (by simp)
      grind

/-! ## Structure of a grammar -/

/-- the rule class `c` is an alternative of -/
def par (g : Grammar) (c : Nat) : Option Nat := g[c]?.bind (·.parent)

/-- What `register_type` guarantees: the parent of a registered class is a registered class;
builtins (`int`, `float`, …) are never productions and carry no weight. -/
structure WF (g : Grammar) : Prop where
  parent_lt : ∀ c r, par g c = some r → r < g.length
  builtin_plain : ∀ cls ∈ g, cls.builtin = true → cls.parent = none ∧ cls.weight = none

private theorem mem_alts (g : Grammar) (r c : Nat) : c ∈ alts g r ↔ par g c = some r := by
  simp only [alts, List.mem_filter, List.mem_range, par, beq_iff_eq]
  constructor
  · exact fun h => h.2
  · intro h
    refine ⟨?_, h⟩
    rcases Nat.lt_or_ge c g.length with hl | hl
    · exact hl
    · rw [List.getElem?_eq_none hl] at h; simp at h

private theorem mem_rules (g : Grammar) (hwf : WF g) (r : Nat) : r ∈ rules g ↔ alts g r ≠ [] := by
  simp only [rules, List.mem_filter, List.mem_range, Bool.not_eq_true', List.isEmpty_eq_false_iff]
  constructor
  · exact fun h => h.2
  · intro h
    refine ⟨?_, h⟩
    obtain ⟨c, hc⟩ := List.exists_mem_of_ne_nil _ h
    exact hwf.parent_lt c r ((mem_alts g r c).mp hc)

private theorem rules_nodup (g : Grammar) : (rules g).Nodup :=
  List.Nodup.sublist List.filter_sublist List.nodup_range

/-! ## `update_weights`: the loop over the rules has a closed form -/

/-- the total a rule is divided by -/
def total (g : Grammar) (lr : Rat) (e w : Nat → Rat) (r : Nat) : Rat :=
  sumOver (fun c => w c + lr * e c) (alts g r)

/-- the weight of class `c` after the rules in `rs` have been renormalised -/
def final (g : Grammar) (lr : Rat) (e w : Nat → Rat) (rs : List Nat) (c : Nat) : Rat :=
  match par g c with
  | some r => if r ∈ rs then (w c + lr * e c) / total g lr e w r else w c
  | none => w c

private theorem final_none (g : Grammar) (lr : Rat) (e w : Nat → Rat) (rs : List Nat) (c : Nat)
    (h : par g c = none) : final g lr e w rs c = w c := by
  simp [final, h]

private theorem final_mem (g : Grammar) (lr : Rat) (e w : Nat → Rat) (rs : List Nat) (c r : Nat)
    (h : par g c = some r) (hr : r ∈ rs) :
    final g lr e w rs c = (w c + lr * e c) / total g lr e w r := by
  simp [final, h, hr]

private theorem final_not_mem (g : Grammar) (lr : Rat) (e w : Nat → Rat) (rs : List Nat) (c r : Nat)
    (h : par g c = some r) (hr : r ∉ rs) : final g lr e w rs c = w c := by
  simp [final, h, hr]

private theorem updateRule_spec (g : Grammar) (lr : Rat) (e w : Nat → Rat) (r : Nat) :
    updateRule lr e (alts g r) w =
      if total g lr e w r = 0 then .error .zeroDivision
      else .ok (final g lr e w [r]) := by
  have hs : sumOver (fun c => if c ∈ alts g r then w c + lr * e c else w c) (alts g r) = total g lr e w r :=
    sumOver_congr _ _ _ (fun c hc => by simp [hc])
  unfold updateRule
  simp only [hs]
  split
  · rfl
  · congr 1
    funext c
    simp only [final, mem_alts, List.mem_singleton]
    cases hp : par g c with
    | none => simp
    | some r' =>
      by_cases h : r' = r
      · subst h; simp
      · simp [h]

private theorem total_final (g : Grammar) (lr : Rat) (e w : Nat → Rat) (rs : List Nat) (r : Nat)
    (hr : r ∉ rs) : total g lr e (final g lr e w rs) r = total g lr e w r := by
  unfold total
  apply sumOver_congr
  intro c hc
  have : par g c = some r := (mem_alts g r c).mp hc
  simp [final, this, hr]

/-- `updateRules` over a duplicate-free list of rules: it fails exactly when some rule totals 0,
and otherwise every class ends with the closed form `final` — whatever the order of the rules. -/
private theorem updateRules_spec (g : Grammar) (lr : Rat) (e : Nat → Rat) (rs : List Nat)
    (hnd : rs.Nodup) (w : Nat → Rat) :
    (updateRules lr e g rs w = .ok (final g lr e w rs) ∧ ∀ r ∈ rs, total g lr e w r ≠ 0) ∨
    (updateRules lr e g rs w = .error .zeroDivision ∧ ∃ r ∈ rs, total g lr e w r = 0) := by
  induction rs generalizing w with
  | nil =>
    left
    refine ⟨?_, by simp⟩
    simp only [updateRules]
    congr 1
    funext c
    simp only [final]
    cases par g c <;> simp
  | cons r rest ih =>
    obtain ⟨hr, hrest⟩ := List.nodup_cons.mp hnd
    simp only [updateRules, updateRule_spec]
    by_cases ht : total g lr e w r = 0
    · right
      rw [if_pos ht]
      exact ⟨rfl, r, by simp, ht⟩
    · rw [if_neg ht]
      simp only
      have hfin : ∀ c, final g lr e (final g lr e w [r]) rest c = final g lr e w (r :: rest) c := by
        intro c
        cases hp : par g c with
        | none => rw [final_none _ _ _ _ _ _ hp, final_none _ _ _ _ _ _ hp, final_none _ _ _ _ _ _ hp]
        | some r' =>
          by_cases h1 : r' ∈ rest
          · have hne : r' ≠ r := fun h => hr (h ▸ h1)
            rw [final_mem g lr e (final g lr e w [r]) rest c r' hp h1,
              final_mem g lr e w (r :: rest) c r' hp (by simp [h1]),
              total_final g lr e w [r] r' (by simpa using hne),
              final_not_mem g lr e w [r] c r' hp (by simpa using hne)]
          · rw [final_not_mem g lr e (final g lr e w [r]) rest c r' hp h1]
            by_cases h2 : r' = r
            · subst h2
              rw [final_mem g lr e w [r'] c r' hp (by simp), final_mem g lr e w (r' :: rest) c r' hp (by simp)]
            · rw [final_not_mem g lr e w [r] c r' hp (by simpa using h2),
                final_not_mem g lr e w (r :: rest) c r' hp (by simp [h1, h2])]
      rcases ih hrest (final g lr e w [r]) with ⟨hok, hne⟩ | ⟨herr, r', hr', hz⟩
      · left
        refine ⟨?_, ?_⟩
        · rw [hok]; congr 1; funext c; exact hfin c
        · intro r' hr'
          rcases List.mem_cons.mp hr' with h | h
          · subst h; exact ht
          · have hne' : r' ≠ r := fun h' => hr (h' ▸ h)
            rw [← total_final g lr e w [r] r' (by simpa using hne')]
            exact hne r' h
      · right
        refine ⟨herr, r', by simp [hr'], ?_⟩
        have hne' : r' ≠ r := fun h' => hr (h' ▸ hr')
        rw [← total_final g lr e w [r] r' (by simpa using hne')]
        exact hz

/-! ## Reading the weights back -/

private theorem par_writeBack (g : Grammar) (w : Nat → Rat) (c : Nat) :
    par (writeBack g w) c = par g c := by
  simp only [par, writeBack, List.getElem?_mapIdx]
  cases g[c]? with
  | none => rfl
  | some cls => simp only [Option.map_some, Option.bind_some]; split <;> rfl

private theorem length_writeBack (g : Grammar) (w : Nat → Rat) : (writeBack g w).length = g.length := by
  simp [writeBack]

private theorem alts_writeBack (g : Grammar) (w : Nat → Rat) (r : Nat) :
    alts (writeBack g w) r = alts g r := by
  unfold alts
  rw [length_writeBack]
  apply List.filter_congr
  intro c _
  have := par_writeBack g w c
  unfold par at this
  rw [this]

private theorem rules_writeBack (g : Grammar) (w : Nat → Rat) : rules (writeBack g w) = rules g := by
  simp only [rules, length_writeBack, alts_writeBack]

/-- a class that is not a production keeps the weight it had: `final` does not touch it, and
`writeBack` stores what `final` computed (for builtins: nothing, and they had weight 1) -/
private theorem declared_writeBack (g : Grammar) (hwf : WF g) (lr : Rat) (e : Nat → Rat) (rs : List Nat) (c : Nat) :
    declared (writeBack g (final g lr e (declared g) rs)) c = final g lr e (declared g) rs c := by
  simp only [declared, writeBack, List.getElem?_mapIdx]
  cases hc : g[c]? with
  | none => simp [final, par, hc, declared]
  | some cls =>
    simp only [Option.map_some]
    by_cases hb : cls.builtin = true
    · have := hwf.builtin_plain cls (List.mem_of_getElem? hc) hb
      simp [hb, final, par, hc, this.1, declared]
    · simp [hb]

private theorem wf_writeBack (g : Grammar) (hwf : WF g) (w : Nat → Rat) : WF (writeBack g w) := by
  constructor
  · intro c r h
    rw [par_writeBack] at h
    rw [length_writeBack]
    exact hwf.parent_lt c r h
  · intro cls hcls hb
    simp only [writeBack, List.mem_mapIdx] at hcls
    obtain ⟨i, hi, rfl⟩ := hcls
    by_cases hb' : g[i].builtin = true
    · simp only [hb', if_true]
      exact hwf.builtin_plain _ (List.getElem_mem hi) hb'
    · simp [hb'] at hb

/-! ## What a successful extraction returns -/

/-- the checked range of `update_weights` -/
private def inRange (g : Grammar) (w : Nat → Rat) : Bool :=
  (List.range g.length).all fun c => decide (0 ≤ w c ∧ w c ≤ 1)

private theorem updateWeights_ok (g : Grammar) (lr : Rat) (e : Nat → Rat) (g' : Grammar)
    (h : updateWeights lr e g = .ok g') :
    g' = writeBack g (final g lr e (declared g) (rules g)) ∧
    (∀ r ∈ rules g, total g lr e (declared g) r ≠ 0) ∧
    inRange g (final g lr e (declared g) (rules g)) = true := by
  unfold updateWeights updateWeightsOrd at h
  rcases updateRules_spec g lr e (rules g) (rules_nodup g) (declared g) with ⟨hok, hne⟩ | ⟨herr, _⟩
  · rw [hok] at h
    simp only at h
    split at h
    · rename_i hin
      exact ⟨by cases h; rfl, hne, hin⟩
    · cases h
  · rw [herr] at h; cases h

/-- the extraction step, unfolded: either no class is weighted and nothing happens, or the
weights are those of the closed form -/
private theorem extract_ok (g g' : Grammar) (h : extract g = .ok g') :
    (anyWeighted g = false ∧ g' = g) ∨
    (anyWeighted g = true ∧ g' = writeBack g (final g 1 (declared g) (declared g) (rules g)) ∧
      (∀ r ∈ rules g, total g 1 (declared g) (declared g) r ≠ 0) ∧
      inRange g (final g 1 (declared g) (declared g) (rules g)) = true) := by
  unfold extract at h
  split at h
  · rename_i ha
    exact Or.inr ⟨ha, updateWeights_ok g 1 (declared g) g' h⟩
  · rename_i ha
    cases h
    exact Or.inl ⟨by simpa using ha, rfl⟩

private theorem total_extract (g : Grammar) (r : Nat) :
    total g 1 (declared g) (declared g) r = 2 * sumOver (declared g) (alts g r) :=
  sumOver_double (declared g) (alts g r)

/-- **ratios_preserved.**  After extraction the weight of every production is its declared
weight (1 when undeclared) divided by the declared total of its rule — for every hierarchy, every
nesting, every subset of weighted classes.  Classes that are not productions keep their weight. -/
theorem C19_ratios_preserved (g g' : Grammar) (hwf : WF g) (hany : anyWeighted g = true)
    (h : extract g = .ok g') (c : Nat) :
    declared g' c = match par g c with
      | some r => declared g c / sumOver (declared g) (alts g r)
      | none => declared g c := by
  rcases extract_ok g g' h with ⟨hno, _⟩ | ⟨_, hg', hne, _⟩
  · rw [hany] at hno; cases hno
  · rw [hg', declared_writeBack g hwf]
    simp only [final]
    cases hp : par g c with
    | none => rfl
    | some r =>
      have hr : r ∈ rules g := (mem_rules g hwf r).mpr (by
        intro he
        have : c ∈ alts g r := (mem_alts g r c).mpr hp
        rw [he] at this; cases this)
      have ht := hne r hr
      simp only [hr, if_true]
      rw [total_extract] at ht ⊢
      grind

/-- the same, as the user would say it: within one rule the new weights are in the declared
proportions (cross-multiplied, so that zero weights need no special case) -/
theorem C19_ratios_cross (g g' : Grammar) (hwf : WF g) (hany : anyWeighted g = true)
    (h : extract g = .ok g') (r c₁ c₂ : Nat) (h₁ : c₁ ∈ alts g r) (h₂ : c₂ ∈ alts g r) :
    declared g' c₁ * declared g c₂ = declared g' c₂ * declared g c₁ := by
  rw [C19_ratios_preserved g g' hwf hany h c₁, C19_ratios_preserved g g' hwf hany h c₂,
    (mem_alts g r c₁).mp h₁, (mem_alts g r c₂).mp h₂]
  grind

/-- **weights_normalised.**  After extraction from classes carrying weights, the production
weights of EVERY abstract type (nested ones included) are within `[0, 1]` and sum to exactly one;
the rules of the extracted grammar are those of the hierarchy. -/
theorem C19_weights_normalised (g g' : Grammar) (hwf : WF g) (hany : anyWeighted g = true)
    (h : extract g = .ok g') (r : Nat) (hr : alts g r ≠ []) :
    alts g' r = alts g r ∧
    sumOver (declared g') (alts g' r) = 1 ∧
    ∀ c ∈ alts g' r, 0 ≤ declared g' c ∧ declared g' c ≤ 1 := by
  rcases extract_ok g g' h with ⟨hno, _⟩ | ⟨_, hg', hne, hin⟩
  · rw [hany] at hno; cases hno
  · have halts : alts g' r = alts g r := by rw [hg', alts_writeBack]
    have hrr : r ∈ rules g := (mem_rules g hwf r).mpr hr
    refine ⟨halts, ?_, ?_⟩
    · rw [halts]
      have : sumOver (declared g') (alts g r) =
          sumOver (fun c => (declared g c + 1 * declared g c) / total g 1 (declared g) (declared g) r) (alts g r) := by
        apply sumOver_congr
        intro c hc
        rw [hg', declared_writeBack g hwf]
        simp [final, (mem_alts g r c).mp hc, hrr]
      rw [this, sumOver_div]
      have ht := hne r hrr
      unfold total at ht ⊢
      grind
    · intro c hc
      rw [halts] at hc
      have hlt : c < g.length := by
        have := (mem_alts g r c).mp hc
        rcases Nat.lt_or_ge c g.length with hl | hl
        · exact hl
        · simp [par, List.getElem?_eq_none hl] at this
      rw [hg', declared_writeBack g hwf]
      have := List.all_eq_true.mp hin c (List.mem_range.mpr hlt)
      simpa using this

/-- **extract_idempotent (exact rationals).**  Extracting the same classes again — the class
dicts having been rewritten by the previous extraction — returns exactly the same grammar:
every weight, of productions and of non-productions, is unchanged. -/
theorem C19_extract_idempotent (g g' : Grammar) (hwf : WF g) (h : extract g = .ok g') :
    extract g' = .ok g' := by
  rcases extract_ok g g' h with ⟨hno, hg'⟩ | ⟨hany, hg', hne, hin⟩
  · subst hg'; exact h
  · -- the weights after the first extraction
    have hwf' : WF g' := by rw [hg']; exact wf_writeBack g hwf _
    have hdecl : ∀ c, declared g' c = final g 1 (declared g) (declared g) (rules g) c := by
      intro c; rw [hg', declared_writeBack g hwf]
    have hrules : rules g' = rules g := by rw [hg', rules_writeBack]
    have halts : ∀ r, alts g' r = alts g r := by intro r; rw [hg', alts_writeBack]
    have hpar : ∀ c, par g' c = par g c := by intro c; rw [hg', par_writeBack]
    -- some class is still weighted
    have hany' : anyWeighted g' = true := by
      simp only [anyWeighted, List.any_eq_true] at hany ⊢
      obtain ⟨cls, hcls, hw⟩ := hany
      obtain ⟨i, hi, rfl⟩ := List.getElem_of_mem hcls
      have hnb : ¬ g[i].builtin = true := by
        intro hb
        have := (hwf.builtin_plain _ hcls hb).2
        rw [this] at hw; cases hw
      refine ⟨{ g[i] with weight := some (final g 1 (declared g) (declared g) (rules g) i) }, ?_, rfl⟩
      rw [hg']
      simp only [writeBack, List.mem_mapIdx]
      exact ⟨i, hi, by simp [hnb]⟩
    -- every rule now totals 1, so the second normalisation divides 2w by 2
    have hsum1 : ∀ r ∈ rules g, sumOver (declared g') (alts g r) = 1 := by
      intro r hr
      have := (C19_weights_normalised g g' hwf hany h r ((mem_rules g hwf r).mp hr)).2.1
      rwa [halts] at this
    have htot : ∀ r ∈ rules g', total g' 1 (declared g') (declared g') r ≠ 0 := by
      intro r hr
      rw [hrules] at hr
      rw [total_extract, halts, hsum1 r hr]
      grind
    have hfinal : final g' 1 (declared g') (declared g') (rules g') = declared g' := by
      funext c
      simp only [final, hpar]
      cases hp : par g c with
      | none => rfl
      | some r =>
        have hr : r ∈ rules g := (mem_rules g hwf r).mpr (by
          intro he
          have : c ∈ alts g r := (mem_alts g r c).mpr hp
          rw [he] at this; cases this)
        rw [hrules]
        simp only [hr, if_true]
        rw [total_extract, halts, hsum1 r hr]
        grind
    unfold extract
    simp only [hany', if_true]
    unfold updateWeights updateWeightsOrd
    rcases updateRules_spec g' 1 (declared g') (rules g') (rules_nodup g') (declared g') with ⟨hok, _⟩ | ⟨_, r, hr, hz⟩
    · rw [hok, hfinal]
      have hin' : ((List.range g'.length).all fun c => decide (0 ≤ declared g' c ∧ declared g' c ≤ 1)) = true := by
        have hlen : g'.length = g.length := by rw [hg', length_writeBack]
        rw [hlen]
        have : (fun c => decide (0 ≤ declared g' c ∧ declared g' c ≤ 1)) =
            (fun c => decide (0 ≤ final g 1 (declared g) (declared g) (rules g) c ∧
              final g 1 (declared g) (declared g) (rules g) c ≤ 1)) := by
          funext c; rw [hdecl c]
        rw [this]; exact hin
      simp only [hin', if_true]
      congr 1
      -- writing the same weights back changes nothing
      apply List.ext_getElem?
      intro i
      simp only [writeBack, List.getElem?_mapIdx]
      cases hi : g'[i]? with
      | none => rfl
      | some cls =>
        simp only [Option.map_some, Option.some.injEq]
        by_cases hb : cls.builtin = true
        · simp [hb]
        · simp only [hb]
          have hd : declared g' i = cls.weight.getD 1 := by simp [declared, hi]
          -- cls was written by the first extraction, so its weight is `some`
          have hsome : ∃ q, cls.weight = some q := by
            rw [hg'] at hi
            simp only [writeBack, List.getElem?_mapIdx] at hi
            cases hgi : g[i]? with
            | none => rw [hgi] at hi; cases hi
            | some c0 =>
              rw [hgi] at hi
              simp only [Option.map_some, Option.some.injEq] at hi
              by_cases hb0 : c0.builtin = true
              · simp only [hb0, if_true] at hi; subst hi; exact absurd hb0 hb
              · simp only [hb0] at hi; subst hi; exact ⟨_, rfl⟩
          obtain ⟨q, hq⟩ := hsome
          rw [hd, hq]
          cases cls
          simp_all
    · exact absurd hz (htot r hr)

/-- … hence any number of further extractions changes nothing. -/
theorem C19_extractN_stable (g g' : Grammar) (hwf : WF g) (h : extract g = .ok g') (n : Nat) :
    extractN (n + 1) g = .ok g' := by
  have hid := C19_extract_idempotent g g' hwf h
  have : ∀ n, extractN n g' = .ok g' := by
    intro n
    induction n with
    | zero => rfl
    | succ n ih => simp only [extractN, hid, ih]
  simp only [extractN, h, this n]

/-- Extraction succeeds on every hierarchy in the property's domain: declared weights are
non-negative, every rule has some positive weight (its declared total is positive), and a
weight declared on a class that is NOT a production (e.g. the start symbol) lies in `[0, 1]`
(the pinned and repaired code both `assert` that).  Unweighted classes count as 1. -/
theorem C19_extract_succeeds (g : Grammar) (hwf : WF g)
    (hnn : ∀ c, 0 ≤ declared g c)
    (hpos : ∀ r, alts g r ≠ [] → 0 < sumOver (declared g) (alts g r))
    (hroot : ∀ c, par g c = none → declared g c ≤ 1) :
    ∃ g', extract g = .ok g' := by
  unfold extract
  split
  · unfold updateWeights updateWeightsOrd
    rcases updateRules_spec g 1 (declared g) (rules g) (rules_nodup g) (declared g) with ⟨hok, _⟩ | ⟨_, r, hr, hz⟩
    · rw [hok]
      simp only
      have hin : ((List.range g.length).all fun c =>
          decide (0 ≤ final g 1 (declared g) (declared g) (rules g) c ∧
            final g 1 (declared g) (declared g) (rules g) c ≤ 1)) = true := by
        apply List.all_eq_true.mpr
        intro c _
        simp only [decide_eq_true_eq]
        cases hp : par g c with
        | none => rw [final_none _ _ _ _ _ _ hp]; exact ⟨hnn c, hroot c hp⟩
        | some r =>
          have hc : c ∈ alts g r := (mem_alts g r c).mpr hp
          have hne : alts g r ≠ [] := by intro he; rw [he] at hc; cases hc
          have hr : r ∈ rules g := (mem_rules g hwf r).mpr hne
          rw [final_mem _ _ _ _ _ _ _ hp hr, total_extract]
          have hs := hpos r hne
          have hle := le_sumOver (declared g) (alts g r) (fun c _ => hnn c) c hc
          have hb := div_bounds (declared g c) (sumOver (declared g) (alts g r)) (hnn c) hle hs
          have : (declared g c + 1 * declared g c) / (2 * sumOver (declared g) (alts g r)) =
              declared g c / sumOver (declared g) (alts g r) := by grind
          rw [this]; exact hb
      simp only [hin, if_true]
      exact ⟨_, rfl⟩
    · rw [total_extract] at hz
      have := hpos r ((mem_rules g hwf r).mp hr)
      grind
  · exact ⟨g, rfl⟩

/-- A rule whose declared weights are all zero (total 0) cannot be normalised: extraction
raises (`ZeroDivisionError`) and leaves the classes untouched.  The property's conclusion
(sum one, ratios kept) is unsatisfiable for such a rule, so rejection is the only conforming
behaviour. -/
theorem C19_extract_zero_rule (g : Grammar) (hwf : WF g) (hany : anyWeighted g = true)
    (r : Nat) (hr : alts g r ≠ []) (hz : sumOver (declared g) (alts g r) = 0) :
    extract g = .error .zeroDivision := by
  unfold extract
  simp only [hany, if_true]
  unfold updateWeights updateWeightsOrd
  rcases updateRules_spec g 1 (declared g) (rules g) (rules_nodup g) (declared g) with ⟨_, hne⟩ | ⟨herr, _⟩
  · have := hne r ((mem_rules g hwf r).mpr hr)
    rw [total_extract, hz] at this
    exact absurd (by grind) this
  · rw [herr]

/-- The order in which `update_weights` visits the rules is irrelevant (each class is a
production of at most one rule): any duplicate-free order gives the same result. -/
theorem C19_rule_order_irrelevant (g : Grammar) (lr : Rat) (e : Nat → Rat) (o₁ o₂ : List Nat)
    (h₁ : o₁.Nodup) (h₂ : o₂.Nodup) (hperm : ∀ r, r ∈ o₁ ↔ r ∈ o₂) :
    updateWeightsOrd o₁ lr e g = updateWeightsOrd o₂ lr e g := by
  have hfin : final g lr e (declared g) o₁ = final g lr e (declared g) o₂ := by
    funext c
    simp only [final]
    cases par g c with
    | none => rfl
    | some r => simp only [hperm r]
  unfold updateWeightsOrd
  rcases updateRules_spec g lr e o₁ h₁ (declared g) with ⟨hok1, hne1⟩ | ⟨herr1, r1, hr1, hz1⟩ <;>
  rcases updateRules_spec g lr e o₂ h₂ (declared g) with ⟨hok2, hne2⟩ | ⟨herr2, r2, hr2, hz2⟩
  · rw [hok1, hok2, hfin]
  · exact absurd hz2 (hne1 r2 ((hperm r2).mpr hr2))
  · exact absurd hz1 (hne2 r1 ((hperm r1).mp hr1))
  · rw [herr1, herr2]

/-! ## The weight-aware choosers -/

/-- The exact condition under which the depth heuristic of `ProgressivelyTerminalDecider`
vanishes: a recursive production at synthesis depth `≥ target`, or a non-recursive production
whose distance to terminal reaches the grammar's maximum node depth `target`.  (So it vanishes
for EVERY alternative of a rule e.g. whenever all of them are non-recursive and as deep as the
deepest node of the grammar — in particular in every flat grammar.) -/
theorem C19_heuristic_zero_iff (target depth : Nat) (recursive : Bool) (dist : Nat) :
    heur target depth recursive dist = 0 ↔
      (recursive = true ∧ target ≤ depth) ∨ (recursive = false ∧ target ≤ dist) := by
  unfold heur
  cases recursive
  · simp; omega
  · simp [Nat.div_eq_zero_iff]; omega

private theorem accScaled_go_last (den : Nat) (ns : List Nat) (run d : Nat) (hne : ns ≠ []) :
    (accScaled.go den run ns).getLastD d = (run + ns.sum) * 100000 / den := by
  induction ns generalizing run d with
  | nil => exact absurd rfl hne
  | cons n rest ih =>
    cases rest with
    | nil => simp [accScaled.go]
    | cons m rest' =>
      have := ih (run + n) ((run + n) * 100000 / den) (by simp)
      simp only [accScaled.go, List.getLastD_cons] at this ⊢
      rw [this]
      simp [Nat.add_assoc]

private theorem le_sum_of_mem (ns : List Nat) (n : Nat) (h : n ∈ ns) : n ≤ ns.sum := by
  induction ns with
  | nil => simp at h
  | cons m rest ih =>
    simp only [List.sum_cons]
    rcases List.mem_cons.mp h with h | h
    · omega
    · have := ih h; omega

/-- a weight vector with an entry of at least 1/100000 has a positive scaled total -/
private theorem scaled_total_pos (den : Nat) (ns : List Nat) (hden : 0 < den) (n : Nat) (hn : n ∈ ns)
    (hres : den ≤ 100000 * n) : 0 < (accScaled den ns).getLastD 0 := by
  have hne : ns ≠ [] := by intro h; rw [h] at hn; cases hn
  unfold accScaled
  rw [accScaled_go_last den ns 0 0 hne]
  have := le_sum_of_mem ns n hn
  apply Nat.div_pos _ hden
  calc den ≤ 100000 * n := hres
    _ ≤ (0 + ns.sum) * 100000 := by omega

private theorem getD_zipWith_mul (hs gs : List Nat) (i : Nat) (h : hs.length = gs.length) :
    (List.zipWith (· * ·) hs gs).getD i 0 = hs.getD i 0 * gs.getD i 0 := by
  induction hs generalizing gs i with
  | nil => cases gs <;> simp
  | cons a rest ih =>
    cases gs with
    | nil => simp at h
    | cons b gs' =>
      cases i with
      | zero => simp
      | succ i => simpa using ih gs' i (by simpa using h)

/-- **chooser_respects_zero (ProgressivelyTerminalDecider).**  For every sound random source,
every heuristic vector (in particular the all-zero one) and every vector of production weights
`gs/den` whose non-zero entries are at least 1/100000 (the resolution of `choice_weighted`):
if some alternative has a positive production weight, the decider returns an alternative with
a positive production weight — never a zero-weight one. -/
theorem C19_chooser_respects_zero {σ : Type} (src : Source σ) (hsnd : src.Sound)
    (den : Nat) (hs gs : List Nat) (s : σ) (hden : 0 < den) (hlen : hs.length = gs.length)
    (hres : ∀ n ∈ gs, n = 0 ∨ den ≤ 100000 * n) (hex : ∃ n ∈ gs, 0 < n) :
    ∃ i, (ptdChoose src den hs gs s).1 = some i ∧ i < gs.length ∧ 0 < gs.getD i 0 := by
  unfold ptdChoose ptdWeights
  simp only
  split
  · rename_i hany
    -- some product is positive: the scaled total is positive, C18 applies to the products
    obtain ⟨p, hp, hppos⟩ := List.any_eq_true.mp hany
    have hppos : 0 < p := by simpa using hppos
    obtain ⟨j, hj, hpj⟩ := List.getElem_of_mem hp
    have hjl : j < hs.length ∧ j < gs.length := by
      simp only [List.length_zipWith] at hj; omega
    have hpe : p = hs[j] * gs[j] := by rw [← hpj]; simp
    have hgpos : 0 < gs[j] := by
      rcases Nat.eq_zero_or_pos gs[j] with h0 | h0
      · rw [hpe, h0] at hppos; simp at hppos
      · exact h0
    have hhpos : 1 ≤ hs[j] := by
      rcases Nat.eq_zero_or_pos hs[j] with h0 | h0
      · rw [hpe, h0] at hppos; simp at hppos
      · exact h0
    have hresj : den ≤ 100000 * p := by
      rcases hres gs[j] (List.getElem_mem hjl.2) with h0 | h0
      · omega
      · calc den ≤ 100000 * gs[j] := h0
          _ ≤ 100000 * (hs[j] * gs[j]) := by
            apply Nat.mul_le_mul_left
            exact Nat.le_mul_of_pos_left _ hhpos
          _ = 100000 * p := by rw [hpe]
    have htot := scaled_total_pos den _ hden p hp hresj
    obtain ⟨i, hi, hil, hipos⟩ := C18.C18_choice_weighted_sound src hsnd den _ s htot
    refine ⟨i, hi, ?_, ?_⟩
    · simp only [List.length_zipWith] at hil; omega
    · rw [getD_zipWith_mul hs gs i hlen] at hipos
      exact Nat.pos_of_mul_pos_left hipos
  · -- every product is zero: the production weights alone are used
    obtain ⟨n, hn, hnpos⟩ := hex
    have hresn : den ≤ 100000 * n := by
      rcases hres n hn with h0 | h0
      · omega
      · exact h0
    have htot := scaled_total_pos den gs hden n hn hresn
    exact C18.C18_choice_weighted_sound src hsnd den gs s htot

/-- **chooser_respects_zero (stack representation).**  The symbol chooser of
`create_tree_using_stacks` never selects a symbol (production) of weight zero, given a symbol of
weight at least 1/100000 (there always is one: non-class symbols have weight 1). -/
theorem C19_stack_chooser_respects_zero {σ : Type} (src : Source σ) (hsnd : src.Sound)
    (den : Nat) (ws : List Nat) (s : σ) (hden : 0 < den) (n : Nat) (hn : n ∈ ws)
    (hres : den ≤ 100000 * n) :
    ∃ i, (stackChoose src den ws s).1 = some i ∧ i < ws.length ∧ 0 < ws.getD i 0 :=
  C18.C18_choice_weighted_sound src hsnd den ws s (scaled_total_pos den ws hden n hn hres)

/-- The pinned decider (no fallback to the production weights) violates the statement: with an
all-zero heuristic the products are all zero, `choice_weighted` falls back to a uniform choice
and returns the zero-weight production 0 although production 1 has weight 1. -/
theorem C19_ptd_pinned_witness :
    (ptdChoosePinned scripted 1 [0, 0] [0, 1] ⟨[0], 0⟩).1 = some 0 ∧
    (ptdChoose scripted 1 [0, 0] [0, 1] ⟨[0], 0⟩).1 = some 1 := by
  decide

/-! ## Non-vacuity -/

/-- `A → B | E`, `B → C | D` (B a nested abstract class, unweighted ⇒ 1), `E` weight 3,
`C` weight 0, `D` unweighted, plus the builtin `int`. -/
def exampleGrammar : Grammar :=
  [ ⟨none, none, false⟩,          -- 0: A (start)
    ⟨some 0, none, false⟩,        -- 1: B
    ⟨some 1, some 0, false⟩,      -- 2: C, weight 0
    ⟨some 1, none, false⟩,        -- 3: D
    ⟨some 0, some 3, false⟩,      -- 4: E, weight 3
    ⟨none, none, true⟩ ]          -- 5: int

example : WF exampleGrammar := by
  constructor
  · intro c r h
    have : c < 6 ∨ 6 ≤ c := by omega
    rcases this with h6 | h6
    · have : c = 0 ∨ c = 1 ∨ c = 2 ∨ c = 3 ∨ c = 4 ∨ c = 5 := by omega
      rcases this with rfl | rfl | rfl | rfl | rfl | rfl <;> simp [par, exampleGrammar] at h <;> subst h <;> decide
    · have hn : exampleGrammar[c]? = none := List.getElem?_eq_none (by simpa [exampleGrammar] using h6)
      simp [par, hn] at h
  · intro cls hcls hb
    simp only [exampleGrammar, List.mem_cons, List.not_mem_nil, or_false] at hcls
    rcases hcls with rfl | rfl | rfl | rfl | rfl | rfl <;> simp_all

example : (extract exampleGrammar).toOption.map getWeights = some [1, 1/4, 0, 1, 3/4, 1] := by decide +kernel
example : (extractN 3 exampleGrammar).toOption.map getWeights = some [1, 1/4, 0, 1, 3/4, 1] := by decide +kernel
example : rules exampleGrammar = [0, 1] ∧ alts exampleGrammar 0 = [1, 4] ∧ alts exampleGrammar 1 = [2, 3] := by decide
-- an all-zero rule is rejected
example : (match extract [⟨none, none, false⟩, ⟨some 0, some 0, false⟩, ⟨some 0, some 0, false⟩] with
    | .error e => some e | .ok _ => none) = some .zeroDivision := by decide +kernel
-- a weight > 1 on a class that is not a production trips the assertion
example : (match extract [⟨none, some 2, false⟩, ⟨some 0, some 3, false⟩, ⟨some 0, none, false⟩] with
    | .error e => some e | .ok _ => none) = some .assertion := by decide +kernel
-- the heuristic: target 2, a recursive production at depth 2 and a non-recursive one at distance 2
example : heur 2 2 true 1 = 0 ∧ heur 2 0 false 2 = 0 ∧ heur 2 0 true 1 = 2 ∧ heur 2 0 false 1 = 1 := by decide
example : ptdWeights [1, 0, 2] [0, 4, 4] = [0, 0, 8] ∧ ptdWeights [1, 0, 0] [0, 4, 4] = [0, 4, 4] := by decide
example : (ptdChoose scripted 8 [1, 0, 0] [0, 4, 4] ⟨[0], 0⟩).1 = some 1 := by decide

end GEVerif.C19
