/-
  C16 — Elitism keeps the best: top-k selection and monotone best fitness.

  * `C16_elitism_topk`      — `ElitismStep` on any (unconsumed) iterable: the output is the first `k`
                              of the stable descending sort, has `min k len` elements, and together
                              with the left-out individuals is a permutation of the input in which
                              no left-out individual is strictly better than an included one;
    `C16_elitism_stable`    — ties keep their input order (so the choice among equals is determined);
    `C16_elitism_direction` — under minimisation (`aggregate = -value`) "better" means a smaller value;
  * `C16_par_keeps_best`    — a `ParallelStep` that gives an `ElitismStep` a non-empty slice returns,
                              for every input individual, one at least as good;
  * `C16_elite_monotone`    — in a run of ANY length whose step reserves at least one elitism slot the
                              best aggregate of generation `i+1` is never below that of generation `i`
                              (`C16_elite_monotone_best`: stated on the maximum itself);
  * `C16_elitism_order_only` — under any strictly monotone re-scaling of the fitness values the elite of every size consists
                              of the same individuals in the same order: elitism sees the order of the values, not their
                              distance (what the harness's near-equal / huge-magnitude fitness cases rely on).
-/
import GEVerif.Model.Steps
import GEVerif.Lemmas.Steps
import GEVerif.Props.C15

namespace GEVerif.C16
open GEVerif GEVerif.Steps

/-! ## top-k -/

theorem C16_elitism_topk {σ : Type} (src : Source σ) (cfg : Cfg) (it : Iter) (hf : it.consumed = false)
    (k : Nat) (st : St σ) :
    ∃ out, apply src cfg .elitism it k st = some (out, st) ∧
      out = (sortDesc it.items).take k ∧
      out.length = min k it.items.length ∧
      ∃ rest, (out ++ rest).Perm it.items ∧ ∀ x ∈ out, ∀ y ∈ rest, y.agg ≤ x.agg := by
  refine ⟨(sortDesc it.items).take k, by simp [apply, Iter.iterate_fresh it hf], rfl, by simp [sortDesc_length], ?_⟩
  refine ⟨(sortDesc it.items).drop k, ?_, ?_⟩
  · rw [List.take_append_drop]; exact sortDesc_perm _
  · have h := sortDesc_sorted it.items
    rw [← List.take_append_drop k (sortDesc it.items), List.pairwise_append] at h
    intro x hx y hy
    exact h.2.2 x hx y hy

private theorem insertDesc_filter (a : Int) (x : Ind) (ys : List Ind) :
    (insertDesc x ys).filter (fun z => z.agg = a) =
      if x.agg = a then x :: ys.filter (fun z => z.agg = a) else ys.filter (fun z => z.agg = a) := by
  induction ys with
  | nil => simp only [insertDesc, List.filter]; split <;> simp_all
  | cons y ys ih =>
    simp only [insertDesc]
    split
    · rename_i hgt
      rw [List.filter_cons, ih]
      by_cases hx : x.agg = a
      · have hy : ¬ y.agg = a := by omega
        simp [hx, hy]
      · simp [hx, List.filter_cons]
    · rw [List.filter_cons]
      by_cases hx : x.agg = a <;> simp [hx]

/-- Stability: individuals with equal aggregate keep their input order. -/
theorem C16_elitism_stable (a : Int) (xs : List Ind) :
    (sortDesc xs).filter (fun z => z.agg = a) = xs.filter (fun z => z.agg = a) := by
  induction xs with
  | nil => rfl
  | cons x xs ih =>
    simp only [sortDesc]
    rw [insertDesc_filter, ih, List.filter_cons]
    by_cases hx : x.agg = a <;> simp [hx]

/-- Both optimisation directions: `SingleObjectiveProblem.evaluate` stores `-value` as the
maximising aggregate when minimising, so the elite have the SMALLEST values then. -/
theorem C16_elitism_direction (minimize : Bool) (pop : List Ind) (k : Nat)
    (hagg : ∀ x ∈ pop, x.agg = if minimize then -(compAt 0 x) else compAt 0 x) :
    ∀ x ∈ (sortDesc pop).take k, ∀ y ∈ (sortDesc pop).drop k,
      if minimize then compAt 0 x ≤ compAt 0 y else compAt 0 y ≤ compAt 0 x := by
  have h := sortDesc_sorted pop
  rw [← List.take_append_drop k (sortDesc pop), List.pairwise_append] at h
  intro x hx y hy
  have hxy := h.2.2 x hx y hy
  have hxp : x ∈ pop := (sortDesc_perm pop).subset (List.mem_of_mem_take hx)
  have hyp : y ∈ pop := (sortDesc_perm pop).subset (List.mem_of_mem_drop hy)
  have hax := hagg x hxp
  have hay := hagg y hyp
  cases minimize <;> simp_all <;> omega

/-! ## an elitism slot keeps the best -/

private theorem sortDesc_head_max (pop : List Ind) (m : Nat) (hm : 0 < m) (hne : pop ≠ []) :
    ∃ h ∈ (sortDesc pop).take m, ∀ y ∈ pop, y.agg ≤ h.agg := by
  have hperm := sortDesc_perm pop
  have hs := sortDesc_sorted pop
  cases hsd : sortDesc pop with
  | nil => rw [hsd] at hperm; exact absurd hperm.symm.eq_nil hne
  | cons h t =>
    rw [hsd] at hs hperm
    refine ⟨h, ?_, ?_⟩
    · cases m with
      | zero => omega
      | succ m => simp
    · intro y hy
      have : y ∈ h :: t := hperm.symm.subset hy
      rcases List.mem_cons.mp this with rfl | hyt
      · omega
      · exact (List.pairwise_cons.mp hs).1 y hyt

private theorem applyPar_elite {σ : Type} (src : Source σ) (cfg : Cfg) (npop : List Ind) :
    ∀ (ss : List Step) (rs : List (Nat × Nat)) (i a b : Nat) (st : St σ) (out : List Ind) (st' : St σ),
      applyPar src cfg ss rs npop st = some (out, st') → ss[i]? = some Step.elitism → rs[i]? = some (a, b) → a < b →
      ∀ x ∈ (sortDesc npop).take (b - a), x ∈ out := by
  intro ss
  induction ss with
  | nil => intro rs i a b st out st' _ hi; simp at hi
  | cons s rest ih =>
    intro rs i a b st out st' h hi hr hab
    cases rs with
    | nil => simp at hr
    | cons r rs =>
      obtain ⟨a0, b0⟩ := r
      simp only [applyPar] at h
      cases i with
      | zero =>
        simp at hi hr
        obtain ⟨rfl, rfl⟩ := hr
        subst hi
        have hpos : b0 - a0 > 0 := by omega
        simp only [hpos, if_true, apply, Iter.ofList, Iter.iterate] at h
        simp only [Bool.and_false, Bool.false_eq_true, if_false] at h
        cases hrec : applyPar src cfg rest rs npop st with
        | none => simp [hrec] at h
        | some pr =>
          obtain ⟨o2, st2⟩ := pr
          simp only [hrec] at h
          cases h
          intro x hx
          exact List.mem_append_left _ hx
      | succ i =>
        simp at hi hr
        split at h
        · cases h1 : apply src cfg s (Iter.ofList npop) (b0 - a0) st with
          | none => simp [h1] at h
          | some pr =>
            obtain ⟨o, st1⟩ := pr
            simp only [h1] at h
            cases hrec : applyPar src cfg rest rs npop st1 with
            | none => simp [hrec] at h
            | some pr2 =>
              obtain ⟨o2, st2⟩ := pr2
              simp only [hrec] at h
              cases h
              intro x hx
              exact List.mem_append_right _ (ih rs i a b st1 o2 _ hrec hi hr hab x hx)
        · exact ih rs i a b st out st' h hi hr hab

theorem C16_par_keeps_best {σ : Type} (src : Source σ) (cfg : Cfg) (step : Step) (size : Nat)
    (hslot : HasEliteSlot step size) (it : Iter) (hf : it.consumed = false) (st : St σ)
    (out : List Ind) (st' : St σ) (h : apply src cfg step it size st = some (out, st')) :
    NoWorse it.items out := by
  obtain ⟨ss, ws, rs, i, a, b, rfl, hrs, hi, hr, hab⟩ := hslot
  simp only [apply, Iter.iterate_fresh it hf, hrs] at h
  split at h
  · cases h
  · intro y hy
    have hne : it.items ≠ [] := by intro h0; rw [h0] at hy; simp at hy
    obtain ⟨top, htop, hmax⟩ := sortDesc_head_max it.items (b - a) (by omega) hne
    exact ⟨top, applyPar_elite src cfg it.items ss rs i a b st out st' h hi hr hab top htop, hmax y hy⟩

/-! ## runs of any length -/

private theorem gp_head {σ : Type} (src : Source σ) (cfg : Cfg) (step : Step) (size : Nat) :
    ∀ (t : Nat) (pop : List Ind) (st : St σ) (gens : List (List Ind)) (st' : St σ),
      gpGenerations src cfg step size t pop st = some (gens, st') → gens[0]? = some pop := by
  intro t pop st gens st' h
  cases t with
  | zero => simp [gpGenerations] at h; simp [← h.1]
  | succ t =>
    simp only [gpGenerations] at h
    split at h
    · cases h
    · split at h
      · cases h
      · cases h; simp

/-- Monotone best fitness: for every run length `t`, every sound or unsound source, every
script — if the run's step has an elitism slot, each generation is no worse than the previous. -/
theorem C16_elite_monotone {σ : Type} (src : Source σ) (cfg : Cfg) (step : Step) (size : Nat)
    (hslot : HasEliteSlot step size) :
    ∀ (t : Nat) (pop : List Ind) (st : St σ) (gens : List (List Ind)) (st' : St σ),
      gpGenerations src cfg step size t pop st = some (gens, st') →
      ∀ (i : Nat) (g g' : List Ind), gens[i]? = some g → gens[i + 1]? = some g' → NoWorse g g' := by
  intro t
  induction t with
  | zero =>
    intro pop st gens st' h i g g' _ hg'
    simp [gpGenerations] at h
    rw [← h.1] at hg'; simp at hg'
  | succ t ih =>
    intro pop st gens st' h i g g' hg hg'
    simp only [gpGenerations] at h
    cases h1 : apply src cfg step (Iter.ofList pop) size st with
    | none => simp [h1] at h
    | some pr =>
      obtain ⟨nxt, st1⟩ := pr
      simp only [h1] at h
      cases h2 : gpGenerations src cfg step size t nxt st1 with
      | none => simp [h2] at h
      | some pr2 =>
        obtain ⟨gens', st2⟩ := pr2
        simp only [h2] at h
        cases h
        cases i with
        | zero =>
          simp at hg hg'
          subst hg
          have hh := gp_head src cfg step size t nxt st1 gens' _ h2
          rw [hh] at hg'
          cases hg'
          exact C16_par_keeps_best src cfg step size hslot (Iter.ofList pop) rfl st _ _ h1
        | succ i =>
          simp at hg hg'
          exact ih nxt st1 gens' _ h2 i g g' hg hg'

private theorem noWorse_best {g g' : List Ind} (h : NoWorse g g') {b : Ind} (hb : maxByAgg g = some b) :
    ∃ b', maxByAgg g' = some b' ∧ b.agg ≤ b'.agg := by
  obtain ⟨hbm, _⟩ := maxByAgg_some hb
  obtain ⟨x, hx, hle⟩ := h b hbm
  have hne : g' ≠ [] := by intro h0; rw [h0] at hx; simp at hx
  obtain ⟨b', hb'⟩ := maxByAgg_ne_nil hne
  exact ⟨b', hb', by have := (maxByAgg_some hb').2 x hx; omega⟩

/-- The same, on the maximum itself: the best aggregate present never decreases. -/
theorem C16_elite_monotone_best {σ : Type} (src : Source σ) (cfg : Cfg) (step : Step) (size : Nat)
    (hslot : HasEliteSlot step size) (t : Nat) (pop : List Ind) (st : St σ) (gens : List (List Ind)) (st' : St σ)
    (h : gpGenerations src cfg step size t pop st = some (gens, st'))
    (i : Nat) (g g' : List Ind) (hg : gens[i]? = some g) (hg' : gens[i + 1]? = some g') (b : Ind)
    (hb : maxByAgg g = some b) : ∃ b', maxByAgg g' = some b' ∧ b.agg ≤ b'.agg :=
  noWorse_best (C16_elite_monotone src cfg step size hslot t pop st gens st' h i g g' hg hg') hb

/-- Runs exist (no exception) for every well-formed elitist step, every sound source and every
length, so the monotonicity statements are not vacuous. -/
theorem C16_elite_run_total {σ : Type} (src : Source σ) (hs : src.Sound) (cfg : Cfg) (step : Step) (hwf : step.WF)
    (size : Nat) (t : Nat) (pop : List Ind) (st : St σ) (hp : pop.length = size) :
    ∃ gens st', gpGenerations src cfg step size t pop st = some (gens, st') ∧ gens.length = t + 1 := by
  obtain ⟨gens, st', h, hl, _⟩ := C15.C15_gp_generation_size src hs cfg step hwf size t pop st hp
  exact ⟨gens, st', h, hl⟩

/-! ## Non-vacuity -/

private def exPop : List Ind := [⟨0, 3, [3]⟩, ⟨1, 5, [5]⟩, ⟨2, 5, [5]⟩, ⟨3, 1, [1]⟩, ⟨4, 5, [5]⟩]
private def exStep : Step := .par [.novelty, .elitism, .seq [.tournament 2 false, .mutation 1001]] [1, 1, 2]
private def exSt : St Script := ⟨⟨[1, 2, 3, 0, 1, 2, 3, 1, 1, 4, 0, 2], 0⟩, [0, 999, 500], 0⟩

-- ties: the three individuals with aggregate 5 keep their input order, the elite are the first two
example : (apply scripted ⟨1⟩ .elitism (Iter.gen exPop) 2 exSt).map (·.1.map (·.id)) = some [1, 2] := by decide
example : (sortDesc exPop).map (·.id) = [1, 2, 4, 0, 3] := by decide
example : HasEliteSlot exStep 5 :=
  ⟨_, _, [(0, 1), (1, 2), (2, 5)], 1, 1, 2, rfl, by decide, rfl, rfl, by omega⟩
example : exStep.WF := by simp [exStep, Step.WF, Step.allWF]
-- a run of three generations: best aggregate 5, 5, 5 although every non-elite offspring is mutated
example : (gpGenerations scripted ⟨1⟩ exStep 5 2 exPop exSt).map (·.1.map (fun g => (maxByAgg g).map (·.agg)))
    = some [some 5, some 5, some 5] := by decide +kernel
-- the default step at population 10 has NO elitism slot (5% rounds to 0): the hypothesis fails there
example : computeRanges [5, 5, 90] 10 = some [(0, 0), (0, 0), (0, 10)] := by decide

/-! ## only the ORDER of the fitness values matters -/

/-- re-scale the aggregate of an individual -/
def Ind.rescale (f : Int → Int) (x : Ind) : Ind := { x with agg := f x.agg }

/-- `f` preserves the strict order of fitness values (however close they lie) -/
def StrictMono (f : Int → Int) : Prop := ∀ a b, a < b → f a < f b

theorem StrictMono.lt_iff {f : Int → Int} (hf : StrictMono f) (a b : Int) : f a < f b ↔ a < b := by
  constructor
  · intro h
    rcases Int.lt_trichotomy a b with h1 | h1 | h1
    · exact h1
    · subst h1; omega
    · have := hf b a h1; omega
  · exact hf a b

private theorem insertDesc_rescale {f : Int → Int} (hf : StrictMono f) (x : Ind) (ys : List Ind) :
    insertDesc (Ind.rescale f x) (ys.map (Ind.rescale f)) = (insertDesc x ys).map (Ind.rescale f) := by
  induction ys with
  | nil => simp [insertDesc]
  | cons y ys ih =>
    simp only [List.map_cons, insertDesc]
    have hiff : (Ind.rescale f x).agg < (Ind.rescale f y).agg ↔ x.agg < y.agg := hf.lt_iff _ _
    by_cases h : x.agg < y.agg
    · have h' : (Ind.rescale f y).agg > (Ind.rescale f x).agg := hiff.2 h
      have h2 : y.agg > x.agg := h
      rw [if_pos h', if_pos h2, List.map_cons, ih]
    · have h' : ¬ (Ind.rescale f y).agg > (Ind.rescale f x).agg := fun c => h (hiff.1 c)
      have h2 : ¬ y.agg > x.agg := h
      rw [if_neg h', if_neg h2]
      simp

/-- **Elitism sees the ORDER of the fitness values only.**  Under any strictly monotone re-scaling of the aggregates
(values one ulp apart, values in the billions, it makes no difference) the stable descending sort -- hence the elite
of every size -- consists of the same individuals in the same order. -/
theorem C16_elitism_order_only {f : Int → Int} (hf : StrictMono f) (xs : List Ind) (k : Nat) :
    (sortDesc (xs.map (Ind.rescale f))).take k = ((sortDesc xs).take k).map (Ind.rescale f) := by
  have h : sortDesc (xs.map (Ind.rescale f)) = (sortDesc xs).map (Ind.rescale f) := by
    induction xs with
    | nil => rfl
    | cons x xs ih => simp only [List.map_cons, sortDesc, ih, insertDesc_rescale hf]
  rw [h, List.map_take]

example : StrictMono (fun a => 3 * a + 7) := by intro a b h; show 3 * a + 7 < 3 * b + 7; omega
example : (sortDesc ([⟨0, 2, []⟩, ⟨1, 5, []⟩, ⟨2, 2, []⟩].map (Ind.rescale fun a => 3 * a + 7))).take 2 =
    [⟨1, 22, []⟩, ⟨0, 13, []⟩] := by decide

end GEVerif.C16
