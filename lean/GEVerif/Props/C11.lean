/-
  C11 — per-node metadata matches the structure.

  `relabel g v` (Model/Labels.lean) is the model of `relabel_nodes` on a fresh value; the
  specification is the flat traversal `nodesSpec` / `dttSpec` / `weightedSpec` / `typeCountSpec`.

  Hypothesis `ArgsMatchTerminality g v` (Lemmas/Labels.lean): every instance, anywhere in `v`, of
  a class that the grammar treats as a terminal has no constructor arguments.  `relabel_nodes`
  returns at once on such an instance and never looks at its arguments, whereas the traversal
  does, so without the hypothesis three of the four equalities are false
  (`C11_terminal_args_witness`).  Programs of the grammar satisfy it: a class is a terminal of the
  grammar exactly when it is concrete and has no fields.
-/
import GEVerif.Model.Labels
import GEVerif.Lemmas.Labels

namespace GEVerif.C11
open GEVerif

/-! ### 1. The fold equals the flat-traversal specification -/

theorem C11_dtt_spec (g : Grammar) (v : Val) : (relabel g v).dtt = dttSpec g v :=
  relabel_dtt_eq g v

theorem C11_nodes_spec (g : Grammar) (v : Val) (h : ArgsMatchTerminality g v) :
    (relabel g v).nodes = nodesSpec g v :=
  relabel_nodes_eq g v h

theorem C11_weighted_spec (g : Grammar) (v : Val) (h : ArgsMatchTerminality g v) :
    (relabel g v).weighted = weightedSpec g v :=
  relabel_weighted_eq g v h

theorem C11_types_spec (g : Grammar) (v : Val) (h : ArgsMatchTerminality g v) :
    ∀ k, lookupCount (relabel g v).types k = typeCountSpec v k := by
  intro k
  rw [relabel_lookup_eq_total, relabel_total_eq g k v h]

/-- The labels of EVERY sub-value (nested nodes, nodes inside lists and tuples, the lists
themselves) equal the specification evaluated on that sub-value. -/
theorem C11_every_node (g : Grammar) (v : Val) (h : ArgsMatchTerminality g v) :
    ∀ x ∈ v.subvalues,
      (relabel g x).nodes = nodesSpec g x ∧
      (relabel g x).dtt = dttSpec g x ∧
      (relabel g x).weighted = weightedSpec g x ∧
      ∀ k, lookupCount (relabel g x).types k = typeCountSpec x k := by
  intro x hx
  have hx' : ArgsMatchTerminality g x := h.sub hx
  exact ⟨C11_nodes_spec g x hx', C11_dtt_spec g x, C11_weighted_spec g x hx', C11_types_spec g x hx'⟩

/-- In particular the elements of a list field: `Block([e₁, …])` labels every `eᵢ` correctly. -/
theorem C11_list_elements (g : Grammar) (c d e d' e' : Nat) (vs : List Val)
    (h : ArgsMatchTerminality g (.node c d e [.list d' e' vs])) :
    ∀ x ∈ vs,
      (relabel g x).nodes = nodesSpec g x ∧
      (relabel g x).dtt = dttSpec g x ∧
      (relabel g x).weighted = weightedSpec g x ∧
      ∀ k, lookupCount (relabel g x).types k = typeCountSpec x k := by
  intro x hx
  apply C11_every_node g _ h x
  rw [subvalues_node, subvaluesList_cons, subvalues_list]
  exact List.mem_cons_of_mem _ (List.mem_append_left _
    (List.mem_cons_of_mem _ (mem_subvaluesList_of_mem hx)))

/-- The hypothesis is necessary: an (ill-formed) instance of the field-less class `Lit` that
carries an `Add(Lit, Lit)` argument is labelled as a terminal, the traversal sees the `Add`. -/
theorem C11_terminal_args_witness :
    ¬ ArgsMatchTerminality LabelsEx.g LabelsEx.badProg ∧
    (relabel LabelsEx.g LabelsEx.badProg).nodes = 0 ∧ nodesSpec LabelsEx.g LabelsEx.badProg = 1 ∧
    (relabel LabelsEx.g LabelsEx.badProg).weighted = 0 ∧ weightedSpec LabelsEx.g LabelsEx.badProg = 1 ∧
    lookupCount (relabel LabelsEx.g LabelsEx.badProg).types (.cls 2) = 0 ∧
      typeCountSpec LabelsEx.badProg (.cls 2) = 1 := by
  refine ⟨?_, by decide, by decide, by decide, by decide, by decide, by decide⟩
  intro h
  have := h 1 0 0 _ (mem_subvalues_self _) (by decide)
  exact absurd this (by simp)

/-! ### 2. The label `dtt` against the depth of C03 -/

/-- For every value that is not itself a list or tuple (in particular every node) the distance to
the deepest terminal is at most the depth. -/
theorem C11_dtt_le_depth (g : Grammar) (v : Val) (hv : childAdj v = 1) :
    dttSpec g v ≤ v.depth := by
  have := dttSpec_le_depth g v
  simp [containerAdj, hv] at this
  exact this

theorem C11_dtt_le_depth_node (g : Grammar) (c d e : Nat) (args : List Val) :
    (relabel g (.node c d e args)).dtt ≤ (Val.node c d e args).depth := by
  rw [C11_dtt_spec]; exact C11_dtt_le_depth g _ rfl

/-- A list or tuple is labelled with the fold over its elements, each counted one edge away, so
its label may exceed its depth by one (and does: `C11_dtt_list_witness`). -/
theorem C11_dtt_le_depth_container (g : Grammar) (v : Val) : dttSpec g v ≤ v.depth + 1 := by
  have := dttSpec_le_depth g v
  have h : containerAdj v ≤ 1 := by unfold containerAdj; omega
  omega

theorem C11_dtt_list_witness :
    dttSpec LabelsEx.g (.list 0 0 [.int 3]) = 1 ∧ (Val.list 0 0 [.int 3]).depth = 0 := by
  decide

theorem C11_depth_le_dtt_succ (g : Grammar) (v : Val) (h : ArgsMatchTerminality g v) :
    v.depth ≤ dttSpec g v + 1 :=
  depth_le_dttSpec g v h

/-! ### Non-vacuity -/

open LabelsEx in
example : g.reg.nonTerminals = [.cls 2, .cls 3, .cls 4, .cls 0] := by decide
open LabelsEx in
example : g.isTerminalCls 1 = true := by decide

/-- `Block([Add(Lit, Lit), Pair((Lit, 3)), Lit])` satisfies the hypothesis -/
private theorem prog_ok : ArgsMatchTerminality LabelsEx.g LabelsEx.prog := by
  intro c d e args hm ht
  simp [LabelsEx.prog, Val.subvalues, Val.subvaluesList] at hm
  rcases hm with h | h | h | h | h | h <;> first
    | exact h.2.2.2
    | (obtain ⟨rfl, -, -, -⟩ := h; exact absurd ht (by decide))

open LabelsEx in
example : (relabel g prog).nodes = 3 ∧ nodesSpec g prog = 3 ∧
    (relabel g prog).dtt = 2 ∧ dttSpec g prog = 2 ∧ prog.depth = 3 ∧
    (relabel g prog).weighted = 4 ∧ weightedSpec g prog = 4 ∧
    lookupCount (relabel g prog).types (.cls 1) = 4 ∧ typeCountSpec prog (.cls 1) = 4 := by
  decide

/-- the `Add` inside the list, the `Lit` inside the tuple inside the list, and the list itself -/
example :
    let add := Val.node 2 2 0 [.node 1 3 0 [], .node 1 3 0 []]
    add ∈ LabelsEx.prog.subvalues ∧ (relabel LabelsEx.g add).nodes = 1 ∧
      (relabel LabelsEx.g add).dtt = 1 ∧ nodesSpec LabelsEx.g add = 1 := by
  refine ⟨?_, by decide, by decide, by decide⟩
  simp [LabelsEx.prog, Val.subvalues, Val.subvaluesList]

example := C11_every_node LabelsEx.g LabelsEx.prog prog_ok
example := C11_depth_le_dtt_succ LabelsEx.g LabelsEx.prog prog_ok

end GEVerif.C11
