/-
  C11 — per-node metadata matches the structure (theorems are added below as they are proved).
-/
import GEVerif.Model.Labels

namespace GEVerif.C11
open GEVerif

theorem C11_placeholder : True := trivial

end GEVerif.C11
