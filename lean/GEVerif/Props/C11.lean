/-
  C11 — per-node metadata matches the structure.

  `relabel g v` (Model/Labels.lean) is the model of `relabel_nodes` on a fresh value; the
  specification is the flat traversal `nodesSpec` / `dttSpec` / `weightedSpec` / `typeCountSpec`.

  Hypothesis `ArgsMatchTerminality g v` (Lemmas/Labels.lean): every instance, anywhere in `v`, of
  a class that the grammar treats as a terminal has no constructor arguments.  `relabel_nodes`
  returns at once on such an instance and never looks at its arguments, whereas the traversal
  does, so without the hypothesis three of the four equalities are false
  (`C11_terminal_args_witness`).  Well-typed programs of an analysed grammar satisfy it
  (`C11_wellTyped_args_match`, `C11_analysed_terminals_fieldless`): a registered class is a
  terminal of the grammar exactly when it is concrete and has no fields.
-/
import GEVerif.Model.Labels
import GEVerif.Lemmas.Labels
import GEVerif.Model.LabelsE
import GEVerif.Lemmas.LabelsE

namespace GEVerif.C11
open GEVerif GEVerif.Labels

/-! ### 1. The fold equals the flat-traversal specification -/

theorem C11_dtt_spec (g : Grammar) (v : Val) : (relabel g v).dtt = dttSpec g v :=
  relabel_dtt_eq g v

theorem C11_nodes_spec (g : Grammar) (v : Val) (h : ArgsMatchTerminality g v) :
    (relabel g v).nodes = nodesSpec g v :=
  relabel_nodes_eq g v h

theorem C11_weighted_spec (g : Grammar) (v : Val) (h : ArgsMatchTerminality g v) :
    (relabel g v).weighted = weightedSpec g v :=
  relabel_weighted_eq g v h

theorem C11_types_spec (g : Grammar) (v : Val) (h : ArgsMatchTerminality g v) :
    ∀ k, lookupCount (relabel g v).types k = typeCountSpec v k := by
  intro k
  rw [relabel_lookup_eq_total, relabel_total_eq g k v h]

/-- The labels of EVERY sub-value (nested nodes, nodes inside lists and tuples, the lists
themselves) equal the specification evaluated on that sub-value. -/
theorem C11_every_node (g : Grammar) (v : Val) (h : ArgsMatchTerminality g v) :
    ∀ x ∈ v.subvalues,
      (relabel g x).nodes = nodesSpec g x ∧
      (relabel g x).dtt = dttSpec g x ∧
      (relabel g x).weighted = weightedSpec g x ∧
      ∀ k, lookupCount (relabel g x).types k = typeCountSpec x k := by
  intro x hx
  have hx' : ArgsMatchTerminality g x := h.sub hx
  exact ⟨C11_nodes_spec g x hx', C11_dtt_spec g x, C11_weighted_spec g x hx', C11_types_spec g x hx'⟩

/-- In particular the elements of a list field: `Block([e₁, …])` labels every `eᵢ` correctly. -/
theorem C11_list_elements (g : Grammar) (c d e d' e' : Nat) (vs : List Val)
    (h : ArgsMatchTerminality g (.node c d e [.list d' e' vs])) :
    ∀ x ∈ vs,
      (relabel g x).nodes = nodesSpec g x ∧
      (relabel g x).dtt = dttSpec g x ∧
      (relabel g x).weighted = weightedSpec g x ∧
      ∀ k, lookupCount (relabel g x).types k = typeCountSpec x k := by
  intro x hx
  apply C11_every_node g _ h x
  rw [subvalues_node, subvaluesList_cons, subvalues_list]
  exact List.mem_cons_of_mem _ (List.mem_append_left _
    (List.mem_cons_of_mem _ (mem_subvaluesList_of_mem hx)))

/-- The hypothesis is necessary: an (ill-formed) instance of the field-less class `Lit` that
carries an `Add(Lit, Lit)` argument is labelled as a terminal, the traversal sees the `Add`. -/
theorem C11_terminal_args_witness :
    ¬ ArgsMatchTerminality Ex.g Ex.badProg ∧
    (relabel Ex.g Ex.badProg).nodes = 0 ∧ nodesSpec Ex.g Ex.badProg = 1 ∧
    (relabel Ex.g Ex.badProg).weighted = 0 ∧ weightedSpec Ex.g Ex.badProg = 1 ∧
    lookupCount (relabel Ex.g Ex.badProg).types (.cls 2) = 0 ∧
      typeCountSpec Ex.badProg (.cls 2) = 1 := by
  refine ⟨?_, by decide, by decide, by decide, by decide, by decide, by decide⟩
  intro h
  have := h 1 0 0 _ (mem_subvalues_self _) (by decide)
  exact absurd this (by simp)

/-! ### 1b. The hypothesis holds for every well-typed program of every analysed grammar

`register_type` (`regTy`) files a class under the non-terminals unless it is concrete and
field-less, for every grammar and whatever the fuel; a well-typed instance of a field-less class
has no arguments. -/

theorem C11_analysed_terminals_fieldless (spec : GrammarSpec) :
    (analyse spec).terminalsFieldless = true :=
  analyse_terminalsFieldless spec

theorem C11_wellTyped_args_match (g : Grammar) (hg : g.terminalsFieldless = true)
    (deps : List (String × Val)) (ty : Ty) (v : Val) (h : wt g deps ty v = true) :
    ArgsMatchTerminality g v :=
  (wt_fieldless_all g hg).1 deps ty v h

/-- C11 for the programs C01 speaks about: every sub-value of a well-typed program of an analysed
grammar is labelled by `relabel_nodes` with the flat-traversal specification; no side
condition is left. -/
theorem C11_wellTyped_every_node (spec : GrammarSpec) (deps : List (String × Val)) (ty : Ty) (v : Val)
    (h : wt (analyse spec) deps ty v = true) :
    ∀ x ∈ v.subvalues,
      (relabel (analyse spec) x).nodes = nodesSpec (analyse spec) x ∧
      (relabel (analyse spec) x).dtt = dttSpec (analyse spec) x ∧
      (relabel (analyse spec) x).weighted = weightedSpec (analyse spec) x ∧
      ∀ k, lookupCount (relabel (analyse spec) x).types k = typeCountSpec x k :=
  C11_every_node _ v
    (C11_wellTyped_args_match _ (C11_analysed_terminals_fieldless spec) deps ty v h)

/-! ### 2. The label `dtt` against the depth of C03 -/

/-- For every value that is not itself a list or tuple (in particular every node) the distance to
the deepest terminal is at most the depth. -/
theorem C11_dtt_le_depth (g : Grammar) (v : Val) (hv : childAdj v = 1) :
    dttSpec g v ≤ v.depth := by
  have := dttSpec_le_depth g v
  simp [containerAdj, hv] at this
  exact this

theorem C11_dtt_le_depth_node (g : Grammar) (c d e : Nat) (args : List Val) :
    (relabel g (.node c d e args)).dtt ≤ (Val.node c d e args).depth := by
  rw [C11_dtt_spec]; exact C11_dtt_le_depth g _ rfl

/-- A list or tuple is labelled with the fold over its elements, each counted one edge away, so
its label may exceed its depth by one (and does: `C11_dtt_list_witness`). -/
theorem C11_dtt_le_depth_container (g : Grammar) (v : Val) : dttSpec g v ≤ v.depth + 1 := by
  have := dttSpec_le_depth g v
  have h : containerAdj v ≤ 1 := by unfold containerAdj; omega
  omega

theorem C11_dtt_list_witness :
    dttSpec Ex.g (.list 0 0 [.int 3]) = 1 ∧ (Val.list 0 0 [.int 3]).depth = 0 := by
  decide

theorem C11_depth_le_dtt_succ (g : Grammar) (v : Val) (h : ArgsMatchTerminality g v) :
    v.depth ≤ dttSpec g v + 1 :=
  depth_le_dttSpec g v h

/-! ### 3. Memoisation: reused subtrees must not carry stale values

`relabelMemo` (Model/Labels.lean) is `relabel_nodes` with its early return on `gengy_labeled`.
`CachesCorrect g t`: every label stored anywhere in `t` is `relabel g` of the subtree it sits on. -/

/-- Soundness: on a tree whose stored labels are all correct the memoised algorithm returns the
labels of the fresh algorithm, leaves the same program behind, stores the returned labels at the
root (when the root can carry attributes) and all stored labels are again correct. -/
theorem C11_memo_sound (g : Grammar) (t : LVal) (h : CachesCorrect g t) :
    (relabelMemo g t).1 = relabel g t.erase ∧
    (relabelMemo g t).2.erase = t.erase ∧
    (relabelMemo g t).2.rootCache = (if t.canCache then some (relabel g t.erase) else none) ∧
    CachesCorrect g (relabelMemo g t).2 := by
  obtain ⟨h1, h2, h3, h4⟩ := memo_ok g t h
  exact ⟨h1, h2, h4, h3⟩

/-- On a value on which nothing is labelled yet, the memoised algorithm is the fold `relabel`. -/
theorem C11_memo_fresh (g : Grammar) (v : Val) :
    (relabelMemo g (LVal.fresh v)).1 = relabel g v ∧ (relabelMemo g (LVal.fresh v)).2.erase = v := by
  obtain ⟨h1, h2, -, -⟩ := C11_memo_sound g (LVal.fresh v) (fresh_ok g v).1
  rw [erase_fresh] at h1 h2
  exact ⟨h1, h2⟩

/-- A completely labelled tree is handed back untouched: its labels are reused, not recomputed
(which is why their correctness is a hypothesis and not a consequence). -/
theorem C11_memo_reuses (g : Grammar) (t : LVal) (h : t.fullyLabelled = true) :
    (relabelMemo g t).2 = t :=
  memo_fixes_labelled g t h

/-- Every node of the relabelled program: if the stored labels are correct and labelling happened
bottom-up (`labelClosed`: below a labelled object everything is labelled - fresh values, fully
labelled values, and constructor applications over such values all are), then after
`relabelMemo` EVERY class instance and list `x` of the program carries labels, and they are the
flat-traversal specification evaluated on `x`. -/
theorem C11_memo_every_node (g : Grammar) (t : LVal)
    (hc : CachesCorrect g t) (hl : t.labelClosed = true) (ha : ArgsMatchTerminality g t.erase) :
    ∀ x ∈ (relabelMemo g t).2.subtrees, x.canCache = true →
      ∃ l, x.rootCache = some l ∧
        l.nodes = nodesSpec g x.erase ∧ l.dtt = dttSpec g x.erase ∧
        l.weighted = weightedSpec g x.erase ∧
        ∀ k, lookupCount l.types k = typeCountSpec x.erase k := by
  intro x hx hcan
  obtain ⟨-, hera, -, hcc⟩ := C11_memo_sound g t hc
  have hfull := memo_fullyLabelled g t ha hl
  have hroot := labelled_flat g _ hcc hfull x hx hcan
  have hsub : x.erase ∈ t.erase.subvalues := hera ▸ erase_mem_subvalues _ x hx
  have hx' : ArgsMatchTerminality g x.erase := ha.sub hsub
  exact ⟨_, hroot, C11_nodes_spec g _ hx', C11_dtt_spec g _, C11_weighted_spec g _ hx',
    C11_types_spec g _ hx'⟩

/-- One step of `apply_constructor` + `wrap_result` during creation, mutation or crossover: a
new, unlabelled object (class instance, list or tuple) over children that are completely and
correctly labelled satisfies the hypotheses of `C11_memo_every_node`; so does any tree obtained
by repeating this.  Hence, by induction on the construction, all labels of all programs ever
built this way equal the specification. -/
theorem C11_memo_constructor (g : Grammar) (kids : List LVal)
    (hc : CachesCorrectList g kids) (hf : LVal.fullyLabelledList kids = true) :
    (∀ c d e, CachesCorrect g (.node none c d e kids) ∧ (LVal.node none c d e kids).labelClosed = true) ∧
    (∀ d e, CachesCorrect g (.list none d e kids) ∧ (LVal.list none d e kids).labelClosed = true) ∧
    (CachesCorrect g (.tuple kids) ∧ (LVal.tuple kids).labelClosed = true) := by
  have hl := labelClosedList_of_fullyLabelledList kids hf
  refine ⟨fun c d e => ⟨?_, ?_⟩, fun d e => ⟨?_, ?_⟩, ?_, ?_⟩
  · simp only [CachesCorrect]; exact ⟨(fun l h => nomatch h), hc⟩
  · simpa [LVal.labelClosed] using hl
  · simp only [CachesCorrect]; exact ⟨(fun l h => nomatch h), hc⟩
  · simpa [LVal.labelClosed] using hl
  · simpa only [CachesCorrect] using hc
  · simpa [LVal.labelClosed] using hl

/-- ... and the result of the step is again completely and correctly labelled, i.e. usable as a
child of the next step (for a tuple, which carries no labels itself: its elements are). -/
theorem C11_memo_step (g : Grammar) (t : LVal)
    (hc : CachesCorrect g t) (hl : t.labelClosed = true) (ha : ArgsMatchTerminality g t.erase) :
    CachesCorrect g (relabelMemo g t).2 ∧ (relabelMemo g t).2.fullyLabelled = true ∧
      (relabelMemo g t).2.erase = t.erase :=
  ⟨(C11_memo_sound g t hc).2.2.2, memo_fullyLabelled g t ha hl, (C11_memo_sound g t hc).2.1⟩

/-- The hypothesis is necessary: `Block([Add(Lit, Lit)])` whose list still carries the labels it
had as `[Lit]` (element replaced in place, `gengy_labeled` not cleared).  The memoised algorithm
trusts the stale labels: it reports 1 node, distance 1 and no `Add` beneath the `Block`, the
structure has 2 nodes, distance 2 and one `Add`. -/
theorem C11_memo_stale_witness :
    ¬ CachesCorrect Ex.g Ex.staleProg ∧
    (relabelMemo Ex.g Ex.staleProg).1.nodes = 1 ∧
      nodesSpec Ex.g Ex.staleProg.erase = 2 ∧
    (relabelMemo Ex.g Ex.staleProg).1.dtt = 1 ∧
      dttSpec Ex.g Ex.staleProg.erase = 2 ∧
    (relabelMemo Ex.g Ex.staleProg).1.weighted = 1 ∧
      weightedSpec Ex.g Ex.staleProg.erase = 3 ∧
    lookupCount (relabelMemo Ex.g Ex.staleProg).1.types (.cls 2) = 0 ∧
      typeCountSpec Ex.staleProg.erase (.cls 2) = 1 := by
  refine ⟨?_, by decide, by decide, by decide, by decide, by decide, by decide, by decide, by decide⟩
  intro h
  simp only [Ex.staleProg, CachesCorrect, CachesCorrectList] at h
  have := congrArg Lab.nodes (h.2.1.1 _ rfl)
  revert this
  decide

/-! ### Non-vacuity -/

open Ex in
example : g.reg.nonTerminals = [.cls 2, .cls 3, .cls 4, .cls 0] := by decide
open Ex in
example : g.isTerminalCls 1 = true := by decide

/-- `Block([Add(Lit, Lit), Pair((Lit, 3)), Lit])` satisfies the hypothesis -/
private theorem prog_ok : ArgsMatchTerminality Ex.g Ex.prog := by
  intro c d e args hm ht
  simp [Ex.prog, Val.subvalues, Val.subvaluesList] at hm
  rcases hm with h | h | h | h | h | h <;> first
    | exact h.2.2.2
    | (obtain ⟨rfl, -, -, -⟩ := h; exact absurd ht (by decide))

open Ex in
example : (relabel g prog).nodes = 3 ∧ nodesSpec g prog = 3 ∧
    (relabel g prog).dtt = 2 ∧ dttSpec g prog = 2 ∧ prog.depth = 3 ∧
    (relabel g prog).weighted = 4 ∧ weightedSpec g prog = 4 ∧
    lookupCount (relabel g prog).types (.cls 1) = 4 ∧ typeCountSpec prog (.cls 1) = 4 := by
  decide

/-- a node nested inside the list: the `Add` of `Block([Add(Lit, Lit), …])` -/
example :
    let add := Val.node 2 2 0 [.node 1 3 0 [], .node 1 3 0 []]
    add ∈ Ex.prog.subvalues ∧ (relabel Ex.g add).nodes = 1 ∧
      (relabel Ex.g add).dtt = 1 ∧ nodesSpec Ex.g add = 1 := by
  refine ⟨?_, by decide, by decide, by decide⟩
  simp [Ex.prog, Val.subvalues, Val.subvaluesList]

example := C11_every_node Ex.g Ex.prog prog_ok
example := C11_depth_le_dtt_succ Ex.g Ex.prog prog_ok

/-- memoisation, non-vacuously: a reused labelled `Add` under new unlabelled objects (a list and
a tuple among them) -/
private theorem reused_ok :
    CachesCorrect Ex.g Ex.reusedProg ∧ Ex.reusedProg.labelClosed = true ∧
      ArgsMatchTerminality Ex.g Ex.reusedProg.erase := by
  have hadd := C11_memo_step Ex.g
    (LVal.fresh (.node 2 2 0 [.node 1 3 0 [], .node 1 3 0 []]))
    (fresh_ok Ex.g _).1 (fresh_ok Ex.g _).2
    (by
      rw [erase_fresh]
      intro c d e args hm ht
      simp [Val.subvalues, Val.subvaluesList] at hm
      rcases hm with h | h <;> first
        | exact h.2.2.2
        | (obtain ⟨rfl, -, -, -⟩ := h; exact absurd ht (by decide)))
  refine ⟨?_, by decide, ?_⟩
  · simp only [Ex.reusedProg, CachesCorrect, CachesCorrectList]
    exact ⟨(fun l h => nomatch h), ⟨(fun l h => nomatch h), ⟨(fun l h => nomatch h), ⟨hadd.1, trivial, trivial⟩, trivial⟩, trivial⟩, trivial⟩
  · intro c d e args hm ht
    have : Ex.reusedProg.erase =
        .node 3 0 0 [.list 1 0 [.node 4 2 0 [.tuple [.node 2 2 0 [.node 1 3 0 [], .node 1 3 0 []], .int 3]]]] := by
      rfl
    rw [this] at hm
    simp [Val.subvalues, Val.subvaluesList] at hm
    rcases hm with h | h | h | h <;> first
      | exact h.2.2.2
      | (obtain ⟨rfl, -, -, -⟩ := h; exact absurd ht (by decide))

example := C11_memo_every_node Ex.g Ex.reusedProg reused_ok.1 reused_ok.2.1 reused_ok.2.2
example : (relabelMemo Ex.g Ex.reusedProg).1.nodes = 3 ∧
    (relabelMemo Ex.g Ex.reusedProg).1.dtt = 3 ∧
    Ex.reusedProg.fullyLabelled = false := by decide
example : (relabelMemo Ex.g Ex.reusedProg).2.fullyLabelled = true :=
  (C11_memo_step Ex.g Ex.reusedProg reused_ok.1 reused_ok.2.1 reused_ok.2.2).2.1
example : ¬ CachesCorrect Ex.g Ex.staleProg := C11_memo_stale_witness.1

/-- `Block([Add(Lit, Lit), Pair((Lit, 3)), Lit])` is a well-typed `Expr` -/
private theorem prog_wt : wt Ex.g [] (.cls 0) Ex.prog = true := by
  have c1 : Ex.g.cls 1 = ⟨"Lit", false, some 0, []⟩ := rfl
  have c2 : Ex.g.cls 2 = ⟨"Add", false, some 0, [("l", .cls 0), ("r", .cls 0)]⟩ := rfl
  have c3 : Ex.g.cls 3 = ⟨"Block", false, some 0, [("body", .list (.cls 0))]⟩ := rfl
  have c4 : Ex.g.cls 4 = ⟨"Pair", false, some 0, [("p", .tuple [.cls 0, .int])]⟩ := rfl
  have p1 : isProdOf Ex.g (Ex.g.spec.classes.length + 1) 0 1 = true := by decide
  have p2 : isProdOf Ex.g (Ex.g.spec.classes.length + 1) 0 2 = true := by decide
  have p3 : isProdOf Ex.g (Ex.g.spec.classes.length + 1) 0 3 = true := by decide
  have p4 : isProdOf Ex.g (Ex.g.spec.classes.length + 1) 0 4 = true := by decide
  have r1 : Ex.g.reg.allNodes.contains (Sym.cls 1) = true := by decide
  have r2 : Ex.g.reg.allNodes.contains (Sym.cls 2) = true := by decide
  have r3 : Ex.g.reg.allNodes.contains (Sym.cls 3) = true := by decide
  have r4 : Ex.g.reg.allNodes.contains (Sym.cls 4) = true := by decide
  simp [Ex.prog, wt, wtFields, wtAll, wtTuple, c1, c2, c3, c4, p1, p2, p3, p4, r1, r2, r3, r4]

example := C11_wellTyped_every_node Ex.spec [] (.cls 0) Ex.prog prog_wt
example : Ex.g.terminalsFieldless = true := by decide

/-! ### 6. Grammar-expansion depth mode (`extract_grammar(..., expansion_depthing=True)`)

`relabelE g decl v` (Model/LabelsE.lean) is `relabel_nodes` in either mode; `decl` is the declared
type of the position the value sits in (it determines the element type a `GengyList` remembers).
In node mode it is `relabel`, so everything above carries over; in expansion mode the three numbers
equal the independent traversals `nodesSpecE` (one per object, one per nested container, one per
abstract expansion), `dttSpecE` and `weightedSpecE`; the type index is the same in both modes.
The number of abstract expansions charged from a declared abstract type `a` to the class `c` of the
value is `g.absDist a c`, the length of the SHORTEST chain of alternatives from `a` to `c`. -/

theorem C11_node_mode_is_relabel (g : Grammar) (h : g.e = 0) (decl : Option Ty) (v : Val) :
    relabelE g decl v = relabel g v :=
  relabelE_eq_relabel g h decl v

theorem C11_expansion_dtt_spec (g : Grammar) (h : g.e = 1) (decl : Option Ty) (v : Val) :
    (relabelE g decl v).dtt = dttSpecE g decl v :=
  relabelE_dtt_eq g h decl v

theorem C11_expansion_nodes_spec (g : Grammar) (h : g.e = 1) (decl : Option Ty) (v : Val)
    (hv : ArgsMatchTerminality g v) : (relabelE g decl v).nodes = nodesSpecE g decl v :=
  relabelE_nodes_eq g h decl v hv

theorem C11_expansion_weighted_spec (g : Grammar) (h : g.e = 1) (decl : Option Ty) (v : Val)
    (hv : ArgsMatchTerminality g v) : (relabelE g decl v).weighted = weightedSpecE g decl v :=
  relabelE_weighted_eq g h decl v hv

theorem C11_expansion_types_spec (g : Grammar) (decl : Option Ty) (v : Val)
    (hv : ArgsMatchTerminality g v) :
    ∀ k, lookupCount (relabelE g decl v).types k = typeCountSpec v k := by
  intro k
  rw [relabelE_types]
  exact C11_types_spec g v hv k

/-- every sub-value, each with the declared type of its position -/
theorem C11_expansion_every_node (g : Grammar) (h : g.e = 1) (v : Val)
    (hv : ArgsMatchTerminality g v) :
    ∀ x ∈ v.subvalues, ∀ decl,
      (relabelE g decl x).nodes = nodesSpecE g decl x ∧
      (relabelE g decl x).dtt = dttSpecE g decl x ∧
      (relabelE g decl x).weighted = weightedSpecE g decl x ∧
      ∀ k, lookupCount (relabelE g decl x).types k = typeCountSpec x k := by
  intro x hx decl
  have hx' : ArgsMatchTerminality g x := hv.sub hx
  exact ⟨C11_expansion_nodes_spec g h decl x hx', C11_expansion_dtt_spec g h decl x,
    C11_expansion_weighted_spec g h decl x hx', C11_expansion_types_spec g decl x hx'⟩

/-- the charge for a declared abstract type is the length of a real chain of alternatives, and of
a shortest one -/
theorem C11_expansion_hops_shortest_chain (g : Grammar) (a c : Nat) (h : g.absDist a c ≠ INF) :
    (∃ k, Chain g a c k ∧ g.absDist a c = k) ∧
    ∀ k, Chain g a c k → k ≤ g.spec.classes.length + 1 → g.absDist a c ≤ k :=
  ⟨absDist_chain g a c h, fun k hc hk => absDist_le_chain g a c k hc hk⟩

theorem C11_expansion_hops_direct (g : Grammar) (a c : Nat) (h : c ∈ (g.altsOf a).getD []) :
    g.absDist a c = 1 :=
  absDist_direct g a c h

/-- in expansion mode every object, also a base value or a field-less instance, is at distance ≥ 1 -/
theorem C11_expansion_dtt_pos (g : Grammar) (decl : Option Ty) (v : Val) (h : v.isContainer = false) :
    1 ≤ dttSpecE g decl v :=
  dttSpecE_pos g decl v h

/-- memoisation in either depth mode: on a tree whose cached labels are correct, `relabel_nodes`
returns the labels of the structure, changes nothing but caches, and leaves every cache correct --
so reused subtrees (mutation, crossover) never carry stale values in expansion mode either -/
theorem C11_expansion_memo_sound (g : Grammar) (decl : Option Ty) (t : LVal) (h : CachesCorrectE g decl t) :
    (relabelMemoE g decl t).1 = relabelE g decl t.erase ∧
    (relabelMemoE g decl t).2.erase = t.erase ∧
    CachesCorrectE g decl (relabelMemoE g decl t).2 :=
  memoE_ok g decl t h

/-- one more constructor application on already labelled children keeps the invariant: by induction
every program built bottom-up by `wrap_result` carries correct labels -/
theorem C11_expansion_memo_step (g : Grammar) (decl : Option Ty) (t : LVal) (h : CachesCorrectE g decl t) :
    CachesCorrectE g decl (relabelMemoE g decl t).2 ∧
    (relabelMemoE g decl (relabelMemoE g decl t).2).1 = relabelE g decl t.erase := by
  obtain ⟨h1, h2, h3⟩ := memoE_ok g decl t h
  refine ⟨h3, ?_⟩
  rw [(memoE_ok g decl _ h3).1, h2]

theorem C11_expansion_memo_fresh (g : Grammar) (decl : Option Ty) (v : Val) :
    (relabelMemoE g decl (LVal.fresh v)).1 = relabelE g decl v := by
  rw [(memoE_ok g decl _ (freshE_ok g decl v)).1, erase_fresh]

namespace ExE
/-- layered hierarchy `Expr ⊃ Atom ⊃ Const ⊃ {Lit}`, `Neg(arg: Expr)`, `Seq(xs: list[Expr])` -/
def spec : GrammarSpec :=
  { classes := [⟨"Expr", true, none, []⟩, ⟨"Atom", true, some 0, []⟩, ⟨"Const", true, some 1, []⟩,
                ⟨"Lit", false, some 2, [("v", .int)]⟩, ⟨"Neg", false, some 0, [("arg", .cls 0)]⟩,
                ⟨"Seq", false, some 0, [("xs", .list (.cls 0))]⟩],
    start := 0, considered := [0, 1, 2, 3, 4, 5], expansion := true }
def g : Grammar := analyse spec
/-- `Neg(Lit(9))` -/
def negLit : Val := .node 4 0 0 [.node 3 1 1 [.int 9]]
/-- `Seq([Lit(1), Neg(Lit(2))])` -/
def seqProg : Val := .node 5 0 0 [.list 1 1 [.node 3 2 2 [.int 1], .node 4 2 2 [.node 3 3 3 [.int 2]]]]
end ExE

example : ExE.g.e = 1 := by decide
example : ExE.g.absDist 0 3 = 3 ∧ ExE.g.absDist 0 4 = 1 ∧ ExE.g.absDist 1 3 = 2 ∧ ExE.g.absDist 2 4 = INF := by
  decide
/-- `Lit(9)` is 2 nodes deep 2 (the object and its int); `Neg(Lit(9))` is charged the three
expansions Expr → Atom → Const → Lit: 1 + 3 + 2 = 6 nodes, distance 2 + 3 + 1 = 6 -/
example : (relabelE ExE.g (some (.cls 0)) ExE.negLit).nodes = 6 ∧
    (relabelE ExE.g (some (.cls 0)) ExE.negLit).dtt = 6 ∧
    nodesSpecE ExE.g (some (.cls 0)) ExE.negLit = 6 ∧ dttSpecE ExE.g (some (.cls 0)) ExE.negLit = 6 ∧
    (relabelE ExE.g (some (.cls 0)) ExE.negLit).weighted = weightedSpecE ExE.g (some (.cls 0)) ExE.negLit := by
  decide
/-- elements of a plain list are charged against the list's element type -/
example : (relabelE ExE.g (some (.cls 0)) ExE.seqProg).dtt = 9 ∧
    dttSpecE ExE.g (some (.cls 0)) ExE.seqProg = 9 ∧
    (relabelE ExE.g (some (.cls 0)) ExE.seqProg).nodes = nodesSpecE ExE.g (some (.cls 0)) ExE.seqProg := by
  decide
private theorem negLit_ok : ArgsMatchTerminality ExE.g ExE.negLit := by
  intro c d e args hm ht
  simp [ExE.negLit, Val.subvalues, Val.subvaluesList] at hm
  rcases hm with h | h <;> first
    | exact h.2.2.2
    | (obtain ⟨rfl, -, -, -⟩ := h; exact absurd ht (by decide))
example := C11_expansion_every_node ExE.g (by decide) ExE.negLit negLit_ok
/-- a labelled `Lit(2)` (expansion-mode labels 2,2,3) reused under a new, unlabelled `Neg`: the result is the label of the
structure, charged with the three expansions Expr -> Atom -> Const -> Lit -/
example :
    (relabelMemoE ExE.g (some (.cls 0))
        (.node none 4 0 0 [.node (some ⟨2, 2, 3, [(.cls 3, 1), (.int, 1)]⟩) 3 1 1 [.int 2]])).1.dtt = 6 ∧
    (relabelE ExE.g (some (.cls 0)) (.node 4 0 0 [.node 3 1 1 [.int 2]])).dtt = 6 ∧
    (relabelMemoE ExE.g (some (.cls 0))
        (.node none 4 0 0 [.node (some ⟨2, 2, 3, [(.cls 3, 1), (.int, 1)]⟩) 3 1 1 [.int 2]])).1.nodes = 6 ∧
    (relabelE ExE.g (some (.cls 0)) (.node 3 1 1 [.int 2])).weighted = 3 := by decide


/-- a completely labelled tree is handed back untouched in either depth mode: labels are reused -/
theorem C11_expansion_memo_reuses (g : Grammar) (decl : Option Ty) (t : LVal) (h : t.fullyLabelled = true) :
    (relabelMemoE g decl t).2 = t :=
  memoE_fixes_labelled g decl t h

/-- afterwards every class instance and every list of the program carries labels (either depth mode) -/
theorem C11_expansion_memo_fully_labelled (g : Grammar) (decl : Option Ty) (t : LVal)
    (hl : t.labelClosed = true) (ha : ArgsMatchTerminality g t.erase) :
    (relabelMemoE g decl t).2.fullyLabelled = true :=
  memoE_fullyLabelled g decl t ha hl

/-- Expansion-mode counterpart of `C11_memo_every_node`: if the stored labels are correct for the declared types of their
positions and labelling happened bottom-up, then after `relabel_nodes` EVERY class instance and list `x` of the program --
taken with the declared type `d` of its position -- carries labels, and they are the expansion-mode specification
evaluated on `x` at `d`: reused subtrees carry no stale values in expansion mode either. -/
theorem C11_expansion_memo_every_node (g : Grammar) (h : g.e = 1) (decl : Option Ty) (t : LVal)
    (hc : CachesCorrectE g decl t) (hl : t.labelClosed = true) (ha : ArgsMatchTerminality g t.erase) :
    ∀ p ∈ LVal.declSubtrees g decl (relabelMemoE g decl t).2, p.2.canCache = true →
      ∃ l, p.2.rootCache = some l ∧
        l.nodes = nodesSpecE g p.1 p.2.erase ∧ l.dtt = dttSpecE g p.1 p.2.erase ∧
        l.weighted = weightedSpecE g p.1 p.2.erase ∧
        ∀ k, lookupCount l.types k = typeCountSpec p.2.erase k := by
  intro p hp hcan
  obtain ⟨-, hera, hcc⟩ := C11_expansion_memo_sound g decl t hc
  have hfull := memoE_fullyLabelled g decl t ha hl
  have hroot := labelledE_flat g decl _ hcc hfull p hp hcan
  have hsub : p.2.erase ∈ t.erase.subvalues :=
    hera ▸ erase_mem_subvalues _ p.2 (declSubtrees_mem_subtrees g decl _ p hp)
  have hx' : ArgsMatchTerminality g p.2.erase := ha.sub hsub
  exact ⟨_, hroot, C11_expansion_nodes_spec g h p.1 _ hx', C11_expansion_dtt_spec g h p.1 _,
    C11_expansion_weighted_spec g h p.1 _ hx', C11_expansion_types_spec g p.1 _ hx'⟩

private theorem seqProg_ok : ArgsMatchTerminality ExE.g ExE.seqProg := by
  intro c d e args hm ht
  simp [ExE.seqProg, Val.subvalues, Val.subvaluesList] at hm
  rcases hm with h | h | h | h <;> first
    | exact h.2.2.2
    | (obtain ⟨rfl, -, -, -⟩ := h; exact absurd ht (by decide))

/-- the hypotheses are satisfiable: the fresh (unlabelled) `Seq([Lit(1), Neg(Lit(2))])` at the start symbol -/
example := C11_expansion_memo_every_node ExE.g (by decide) (some (.cls 0)) (LVal.fresh ExE.seqProg)
  (freshE_ok ExE.g _ _) (by decide) (by rw [erase_fresh]; exact seqProg_ok)
/-- and it has cacheable subtrees: 5 class instances / lists, each with its declared type -/
example : ((LVal.declSubtrees ExE.g (some (.cls 0)) (relabelMemoE ExE.g (some (.cls 0)) (LVal.fresh ExE.seqProg)).2).filter
    fun p => p.2.canCache).length = 5 := by decide
example : (relabelMemoE ExE.g (some (.cls 0)) (LVal.fresh ExE.seqProg)).2.fullyLabelled = true := by decide

end GEVerif.C11
