/-
  C06 — crossover recombines parental material; point mutation is local.

  Linear (GE / stack) and structured (SGE / dynamic SGE) genotypes: the property holds for the
  model of the code as it is, for all genotypes, lengths, cut points, masks and random states.

  Tree genotypes: the pinned `tree_crossover` VIOLATES the property (open finding, see
  `Model/TreeOps.lean`).  Full statement, kept here as the specification the code fails:

    theorem C06_tree_crossover_parental (g : Grammar) (dec : Decider) (fuel : Nat)
        (p1 p2 c1 c2 : Val) (s s' : SynSt)
        (h : treeCrossover g dec fuel p1 p2 s = .ok (c1, c2) s') :
        isRecombination p1 p2 c1 = true ∧ isRecombination p2 p1 c2 = true

  i.e. each child is one parent with a single subtree replaced by a (same-typed) subtree of the
  other parent.  What IS true of the code is proved as `C06_tree_crossover_partial`: when the
  other parent contains an instance of the start class itself (only possible when the start
  symbol is a concrete class) and the root carries a synthesis context, the child is that
  donor subtree put at the root.  `C06_tree_crossover_witness` is the counterexample for the
  usual case of an abstract start symbol: the child is a fresh random tree.
-/
import GEVerif.Model.Linear
import GEVerif.Model.TreeOps
import GEVerif.Lemmas.SynM
import GEVerif.Lemmas.Genotype

namespace GEVerif.C06
open GEVerif GEVerif.Genotype

/-- GE / stack one-point crossover: whatever the cut point (GE draws it in `[0, L-1]`, the stack
representation in `[0, 255]` regardless of the length, so `cutTop` is arbitrary), both children
have the parents' length and every gene comes from one of the parents AT THE SAME LOCUS. -/
theorem C06_lin_crossover_locus (cutTop : Int) (p1 p2 c1 c2 : List Int) (s s' : SynSt)
    (h : linCrossover cutTop p1 p2 s = .ok (c1, c2) s') (hl : p1.length = p2.length) :
    c1.length = p1.length ∧ c2.length = p1.length ∧
    (∀ i, i < p1.length →
      (c1[i]? = p1[i]? ∨ c1[i]? = p2[i]?) ∧ (c2[i]? = p2[i]? ∨ c2[i]? = p1[i]?)) ∧
    locusOK p1 p2 c1 = true ∧ locusOK p1 p2 c2 = true := by
  unfold linCrossover at h
  rw [SynM.bind_ok] at h
  obtain ⟨r, s1, _, h⟩ := h
  rw [SynM.pure_ok] at h
  obtain ⟨h, _⟩ := h
  simp only [Prod.mk.injEq] at h
  obtain ⟨rfl, rfl⟩ := h
  obtain ⟨l1, g1⟩ := take_drop_locus r.toNat p1 p2 hl
  obtain ⟨l2, g2⟩ := take_drop_locus r.toNat p2 p1 hl.symm
  have g2' : ∀ i, i < p1.length → _ := fun i hi => g2 i (hl ▸ hi)
  refine ⟨l1, l2.trans hl.symm, fun i hi => ⟨g1 i hi, g2' i hi⟩, ?_, ?_⟩
  · exact locusOK_of_pointwise p1 p2 _ l1 hl g1
  · exact locusOK_of_pointwise p1 p2 _ (l2.trans hl.symm) hl (fun i hi => (g2' i hi).symm)

/-- GE / stack point mutation: the length is preserved and at most one gene differs. -/
theorem C06_lin_mutate_one (geneLength : Nat) (top : Int) (dna c : List Int) (s s' : SynSt)
    (h : linMutate geneLength top dna s = .ok c s') :
    c.length = dna.length ∧ diffCount dna c ≤ 1 := by
  unfold linMutate at h
  rw [SynM.bind_ok] at h
  obtain ⟨r, s1, _, h⟩ := h
  rw [SynM.bind_ok] at h
  obtain ⟨v, s2, _, h⟩ := h
  split at h
  · rw [SynM.pure_ok] at h
    obtain ⟨rfl, _⟩ := h
    exact ⟨by simp, diffCount_set dna r.toNat v⟩
  · exact absurd h (throwE_not_ok _ _ _ _)

/-- SGE crossover, for every mask covering parent 1: both children have exactly the keys of
parent 1, in the same order, and under every key the child's gene list is the list one of the
parents has under that key. -/
theorem C06_sge_crossoverWith_locus (mask : List Bool) (p1 p2 : SGEDna)
    (hm : p1.length ≤ mask.length) :
    (sgeCrossoverWith mask p1 p2).1.map (·.1) = p1.map (·.1) ∧
    (sgeCrossoverWith mask p1 p2).2.map (·.1) = p1.map (·.1) ∧
    ∀ k, (sgeLookup k (sgeCrossoverWith mask p1 p2).1 = sgeLookup k p1 ∨
          sgeLookup k (sgeCrossoverWith mask p1 p2).1 = sgeLookup k p2) ∧
         (sgeLookup k (sgeCrossoverWith mask p1 p2).2 = sgeLookup k p2 ∨
          sgeLookup k (sgeCrossoverWith mask p1 p2).2 = sgeLookup k p1) :=
  sgeCrossoverWith_spec mask p1 p2 hm

/-- SGE crossover as the operator runs it (mask drawn from the random source). -/
theorem C06_sge_crossover_locus (p1 p2 c1 c2 : SGEDna) (s s' : SynSt)
    (h : sgeCrossover p1 p2 s = .ok (c1, c2) s') :
    c1.map (·.1) = p1.map (·.1) ∧ c2.map (·.1) = p1.map (·.1) ∧
    ∀ k, (sgeLookup k c1 = sgeLookup k p1 ∨ sgeLookup k c1 = sgeLookup k p2) ∧
         (sgeLookup k c2 = sgeLookup k p2 ∨ sgeLookup k c2 = sgeLookup k p1) := by
  unfold sgeCrossover at h
  rw [SynM.bind_ok] at h
  obtain ⟨mask, s1, hm, h⟩ := h
  rw [SynM.pure_ok] at h
  obtain ⟨h, _⟩ := h
  have hlen := drawMask_length _ _ _ _ hm
  have := sgeCrossoverWith_spec mask p1 p2 (by omega)
  rw [h] at this
  exact this

/-- dynamic-SGE crossover, for every mask covering parent 1. -/
theorem C06_dsge_crossoverWith_locus (mask : List Bool) (p1 p2 : DSGEDna)
    (hm : p1.length ≤ mask.length) :
    (dsgeCrossoverWith mask p1 p2).1.map (·.1) = p1.map (·.1) ∧
    (dsgeCrossoverWith mask p1 p2).2.map (·.1) = p1.map (·.1) ∧
    ∀ k, (tyLookup k [] (dsgeCrossoverWith mask p1 p2).1 = tyLookup k [] p1 ∨
          tyLookup k [] (dsgeCrossoverWith mask p1 p2).1 = tyLookup k [] p2) ∧
         (tyLookup k [] (dsgeCrossoverWith mask p1 p2).2 = tyLookup k [] p2 ∨
          tyLookup k [] (dsgeCrossoverWith mask p1 p2).2 = tyLookup k [] p1) :=
  dsgeCrossoverWith_spec mask p1 p2 hm

theorem C06_dsge_crossover_locus (p1 p2 c1 c2 : DSGEDna) (s s' : SynSt)
    (h : dsgeCrossover p1 p2 s = .ok (c1, c2) s') :
    c1.map (·.1) = p1.map (·.1) ∧ c2.map (·.1) = p1.map (·.1) ∧
    ∀ k, (tyLookup k [] c1 = tyLookup k [] p1 ∨ tyLookup k [] c1 = tyLookup k [] p2) ∧
         (tyLookup k [] c2 = tyLookup k [] p2 ∨ tyLookup k [] c2 = tyLookup k [] p1) := by
  unfold dsgeCrossover at h
  rw [SynM.bind_ok] at h
  obtain ⟨mask, s1, hm, h⟩ := h
  rw [SynM.pure_ok] at h
  obtain ⟨h, _⟩ := h
  have hlen := drawMask_length _ _ _ _ hm
  have := dsgeCrossoverWith_spec mask p1 p2 (by omega)
  rw [h] at this
  exact this

/-- SGE mutation (keys distinct, as in a Python dict): keys and every gene-list length are
preserved, and summed over all keys at most one gene differs. -/
theorem C06_sge_mutate_one (dna c : SGEDna) (s s' : SynSt)
    (h : sgeMutate dna s = .ok c s') (hnd : (dna.map (·.1)).Nodup) :
    c.map (fun e => (e.1, e.2.length)) = dna.map (fun e => (e.1, e.2.length)) ∧
    ((dna.zip c).map fun ab => diffCount ab.1.2 ab.2.2).sum ≤ 1 := by
  unfold sgeMutate at h
  rw [SynM.bind_ok] at h
  obtain ⟨ki, s1, _, h⟩ := h
  rw [SynM.bind_ok] at h
  obtain ⟨⟨k, genes⟩, s2, hget, h⟩ := h
  simp only at h
  rw [SynM.bind_ok] at h
  obtain ⟨r, s3, _, h⟩ := h
  rw [SynM.bind_ok] at h
  obtain ⟨v, s4, _, h⟩ := h
  rw [SynM.pure_ok] at h
  obtain ⟨rfl, _⟩ := h
  have hk : dna[ki]? = some (k, genes) := listGetM_getElem? _ _ _ _ _ hget
  rw [sgeSet_eq_set dna ki k genes _ hnd hk]
  exact ⟨set_shape dna ki k genes hk _ _, set_diffsum dna ki k genes hk _ _⟩

/-- dynamic-SGE mutation (keys distinct): same statement. -/
theorem C06_dsge_mutate_one (dna c : DSGEDna) (s s' : SynSt)
    (h : dsgeMutate dna s = .ok c s') (hnd : (dna.map (·.1)).Nodup) :
    c.map (fun e => (e.1, e.2.length)) = dna.map (fun e => (e.1, e.2.length)) ∧
    ((dna.zip c).map fun ab => diffCount ab.1.2 ab.2.2).sum ≤ 1 := by
  unfold dsgeMutate at h
  split at h
  · rw [SynM.pure_ok] at h
    obtain ⟨rfl, _⟩ := h
    exact ⟨rfl, by rw [diffsum_self]; omega⟩
  rw [SynM.bind_ok] at h
  obtain ⟨ki, s1, _, h⟩ := h
  rw [SynM.bind_ok] at h
  obtain ⟨⟨k, genes⟩, s2, hget, h⟩ := h
  simp only at h
  split at h
  · rw [SynM.pure_ok] at h
    obtain ⟨rfl, _⟩ := h
    exact ⟨rfl, by rw [diffsum_self]; omega⟩
  rw [SynM.bind_ok] at h
  obtain ⟨r, s3, _, h⟩ := h
  rw [SynM.bind_ok] at h
  obtain ⟨v, s4, _, h⟩ := h
  rw [SynM.pure_ok] at h
  obtain ⟨rfl, _⟩ := h
  have hk : dna[ki]? = some (k, genes) := listGetM_getElem? _ _ _ _ _ hget
  rw [tySet_eq_set dna ki k genes _ hnd hk]
  exact ⟨set_shape dna ki k genes hk _ _, set_diffsum dna ki k genes hk _ _⟩

/-- Tree crossover, the part that holds: if parent 2 contains an instance of the start class
and parent 1's root carries a synthesis context, then child 1 is one of those instances, i.e. a
subtree of parent 2 put at the root of parent 1 — a recombination. -/
theorem C06_tree_crossover_partial (g : Grammar) (dec : Decider) (fuel : Nat)
    (p1 p2 c1 c2 : Val) (s s' : SynSt)
    (h : treeCrossover g dec fuel p1 p2 s = .ok (c1, c2) s')
    (hd : occurrences g.spec.start p2 ≠ []) (hc : p1.ctx ≠ none) :
    c1 ∈ occurrences g.spec.start p2 ∧ c1 ∈ p2.subvalues ∧ isRecombination p1 p2 c1 = true := by
  unfold treeCrossover at h
  rw [SynM.bind_ok] at h
  obtain ⟨x1, s1, h1, h⟩ := h
  rw [SynM.bind_ok] at h
  obtain ⟨x2, s2, _, h⟩ := h
  rw [SynM.pure_ok] at h
  obtain ⟨h, _⟩ := h
  simp only [Prod.mk.injEq] at h
  obtain ⟨rfl, rfl⟩ := h
  have hm := mutateRoot_donor g dec fuel p1 p2 x1 s s1 h1 hd hc
  have hs := mem_occurrences _ _ _ hm
  exact ⟨hm, hs, isRecombination_of_subvalue p1 p2 x1 hs⟩

/-- the same for the second child (donor in parent 1, context on parent 2's root) -/
theorem C06_tree_crossover_partial_snd (g : Grammar) (dec : Decider) (fuel : Nat)
    (p1 p2 c1 c2 : Val) (s s' : SynSt)
    (h : treeCrossover g dec fuel p1 p2 s = .ok (c1, c2) s')
    (hd : occurrences g.spec.start p1 ≠ []) (hc : p2.ctx ≠ none) :
    c2 ∈ occurrences g.spec.start p1 ∧ c2 ∈ p1.subvalues ∧ isRecombination p2 p1 c2 = true := by
  unfold treeCrossover at h
  rw [SynM.bind_ok] at h
  obtain ⟨x1, s1, _, h⟩ := h
  rw [SynM.bind_ok] at h
  obtain ⟨x2, s2, h2, h⟩ := h
  rw [SynM.pure_ok] at h
  obtain ⟨h, _⟩ := h
  simp only [Prod.mk.injEq] at h
  obtain ⟨rfl, rfl⟩ := h
  have hm := mutateRoot_donor g dec fuel p2 p1 x2 s1 s2 h2 hd hc
  have hs := mem_occurrences _ _ _ hm
  exact ⟨hm, hs, isRecombination_of_subvalue p2 p1 x2 hs⟩

/-- The pinned tree crossover is NOT a recombination.  Grammar: abstract start `A` with
productions `Leaf()` and `Node(l : A, r : A)`; both parents are trees the model's `create_node`
itself produces (grow, depth 3); on the draws `[1,1,0,0,1,0]` the first child returned by
`treeCrossover` is `Node(Node(Leaf,Leaf), Node(Leaf,Leaf))`: neither parent 1 = `Node(Leaf,Leaf)`
with one subtree replaced by a subtree of parent 2 = `Node(Node(Leaf,Leaf),Leaf)`, nor a
subtree of parent 2 — it is a fresh tree. -/
theorem C06_tree_crossover_witness :
    ∃ (t1 t2 s' : SynSt) (c2 : Val),
      randomTree (analyse witnessSpec) witnessDec 20 (witnessSt [1, 0, 0]) = .ok witnessP1 t1 ∧
      randomTree (analyse witnessSpec) witnessDec 20 (witnessSt [1, 1, 0, 0, 0]) = .ok witnessP2 t2 ∧
      treeCrossover (analyse witnessSpec) witnessDec 20 witnessP1 witnessP2
        (witnessSt [1, 1, 0, 0, 1, 0]) = .ok (witnessC1, c2) s' ∧
      isRecombination witnessP1 witnessP2 witnessC1 = false ∧
      occurrences (analyse witnessSpec).spec.start witnessP2 = [] :=
  ⟨_, _, _, _, rfl, rfl, rfl, by decide, by decide⟩

/-! ### Non-vacuity -/

example : linCrossover 255 [1, 2, 3] [4, 5, 6] (witnessSt [2]) =
    .ok ([1, 2, 6], [4, 5, 3]) { src := .scripted { draws := [2], pos := 1 } } := by rfl
example : linCrossover 255 [1, 2, 3] [4, 5, 6] (witnessSt [200]) =
    .ok ([1, 2, 3], [4, 5, 6]) { src := .scripted { draws := [200], pos := 1 } } := by rfl
example : linMutate 3 9 [1, 2, 3] (witnessSt [1, 7]) =
    .ok [1, 7, 3] { src := .scripted { draws := [1, 7], pos := 2 } } := by rfl
example : ∃ s', sgeCrossover [("a", [1, 2]), ("b", [3])] [("b", [9]), ("a", [7, 8])] (witnessSt [0, 1])
    = .ok ([("a", [1, 2]), ("b", [9])], [("a", [7, 8]), ("b", [3])]) s' := ⟨_, rfl⟩
example : ∃ s', sgeMutate [("a", [1, 2]), ("b", [3])] (witnessSt [0, 1, 5])
    = .ok [("a", [1, 5]), ("b", [3])] s' := ⟨_, rfl⟩
example : ∃ s', dsgeCrossover [(.int, [1, 2]), (.cls 0, [3])] [(.cls 0, [9])] (witnessSt [1, 1])
    = .ok ([(.int, []), (.cls 0, [9])], [(.int, [1, 2]), (.cls 0, [3])]) s' := ⟨_, rfl⟩
example : ∃ s', dsgeMutate [(.int, [1, 2]), (.cls 0, [3])] (witnessSt [1, 0, 4])
    = .ok [(.int, [1, 2]), (.cls 0, [4])] s' := ⟨_, rfl⟩
/-- the hypothesis of `C06_tree_crossover_partial` is satisfiable: a concrete start class -/
example : occurrences 2 witnessP2 ≠ [] ∧ witnessP1.ctx ≠ none := by decide

end GEVerif.C06
