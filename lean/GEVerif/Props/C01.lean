/-
  C01 — every produced program is well-typed.

  `wt g deps ty v` (Model/Tree.lean) is the full recursive type check of the property statement:
  a registered concrete production where a class is declared, well-typed elements for a list, a
  real tuple of the declared arity, one of the alternatives for a union, exactly the declared
  base type for int / float / str / bool, and every refinement satisfied (dependent ones against
  the actual earlier siblings).  The hypotheses are decidable (`Bool`-valued):

  * `grammarWF g`  — on the analysed grammar (Lemmas/WellTyped.lean);
  * `tyWF ty`, `depsOK deps ty` — only for creation from an ARBITRARY type expression with
    ARBITRARY sibling values; both are `true` by computation for a class symbol (`.cls n`), so
    they disappear from every statement about whole programs.
-/
import GEVerif.Lemmas.WellTyped

namespace GEVerif.C01
open GEVerif GEVerif.WellTyped

/-- MAIN THEOREM.  Whatever the decider kind, the fuel, the type, the synthesis context, the
sibling values and the state (random source / genotype / PI-grow flag) are: if `create_node`
returns a value, the value is well-typed for the requested type. -/
theorem C01_create_wt (g : Grammar) (hg : grammarWF g = true) (dec : Decider) (fuel : Nat)
    (ty : Ty) (ctx : Ctx) (deps : List (String × Val)) (s s' : SynSt) (v : Val)
    (hty : tyWF ty = true) (hdeps : depsOK deps ty = true)
    (h : createNode g dec fuel ty ctx deps s = .ok v s') : wt g deps ty v = true :=
  (createOK g (GWF_of_grammarWF g hg) dec fuel).1 ty ctx deps s v s' hty hdeps h

/-- For a class symbol the side conditions on the type are vacuous. -/
theorem C01_create_cls_wt (g : Grammar) (hg : grammarWF g = true) (dec : Decider) (fuel : Nat)
    (n : Nat) (ctx : Ctx) (deps : List (String × Val)) (s s' : SynSt) (v : Val)
    (h : createNode g dec fuel (.cls n) ctx deps s = .ok v s') : wt g deps (.cls n) v = true :=
  C01_create_wt g hg dec fuel (.cls n) ctx deps s s' v (by simp [tyWF]) (by simp [depsOK, sizeDeps]) h

/-- `random_tree` (every initialiser is `random_tree` with one of the deciders). -/
theorem C01_random_tree_wt (g : Grammar) (hg : grammarWF g = true) (dec : Decider) (fuel : Nat)
    (s s' : SynSt) (v : Val) (h : randomTree g dec fuel s = .ok v s') :
    wt g [] (.cls g.spec.start) v = true :=
  C01_create_cls_wt g hg dec fuel _ _ _ s s' v h

/-- GE: the program mapped from ANY genotype is well-typed. -/
theorem C01_mapGE_wt (g : Grammar) (hg : grammarWF g = true) (dec : Decider) (fuel : Nat)
    (dna : List Int) (expanding : Bool) (v : Val) (s' : SynSt)
    (h : mapGE g dec fuel dna expanding = .ok v s') : wt g [] (.cls g.spec.start) v = true :=
  C01_create_cls_wt g hg dec fuel _ _ _ _ s' v h

/-- SGE -/
theorem C01_mapSGE_wt (g : Grammar) (hg : grammarWF g = true) (dec : Decider) (fuel : Nat)
    (dna : SGEDna) (expanding : Bool) (v : Val) (s' : SynSt)
    (h : mapSGE g dec fuel dna expanding = .ok v s') : wt g [] (.cls g.spec.start) v = true :=
  C01_mapGE_wt g hg dec fuel _ expanding v s' h

/-- dynamic SGE (for any genotype, any shared stream the genotype is extended from) -/
theorem C01_mapDSGE_wt (g : Grammar) (hg : grammarWF g = true) (maxDepth fuel : Nat)
    (dna : DSGEDna) (shared : Script) (v : Val) (s' : SynSt)
    (h : mapDSGE g maxDepth fuel dna shared = .ok v s') : wt g [] (.cls g.spec.start) v = true := by
  unfold mapDSGE at h
  simp only at h
  split at h
  · cases h
  · exact C01_create_cls_wt g hg _ fuel _ _ _ _ s' v h

/-- `tree_mutate`: the child is well-typed for the start symbol (at the pinned commit the
operator acts at the root and regenerates it, so nothing is even required of the parent). -/
theorem C01_mutate_wt (g : Grammar) (hg : grammarWF g = true) (dec : Decider) (fuel : Nat)
    (p : Val) (s s' : SynSt) (c : Val) (h : treeMutate g dec fuel p s = .ok c s') :
    wt g [] (.cls g.spec.start) c = true :=
  treeMutate_wt g (GWF_of_grammarWF g hg) dec fuel p s s' c h

/-- `tree_crossover`: children of well-typed parents are well-typed: each child is a fresh tree
or an occurrence of the start symbol inside the other (well-typed) parent. -/
theorem C01_crossover_wt (g : Grammar) (hg : grammarWF g = true) (dec : Decider) (fuel : Nat)
    (p1 p2 : Val) (s s' : SynSt) (c1 c2 : Val)
    (h1 : wt g [] (.cls g.spec.start) p1 = true) (h2 : wt g [] (.cls g.spec.start) p2 = true)
    (h : treeCrossover g dec fuel p1 p2 s = .ok (c1, c2) s') :
    wt g [] (.cls g.spec.start) c1 = true ∧ wt g [] (.cls g.spec.start) c2 = true :=
  treeCrossover_wt g (GWF_of_grammarWF g hg) dec fuel p1 p2 s s' c1 c2 h1 h2 h

/-- Donor material: every occurrence of class `c` anywhere inside a well-typed value (of any
type, under any sibling values) is itself a well-typed `c`. -/
theorem C01_occurrence_wt (g : Grammar) (deps : List (String × Val)) (ty : Ty) (v : Val) (c : Nat)
    (h : wt g deps ty v = true) (x : Val) (hx : x ∈ occurrences c v) :
    wt g [] (.cls c) x = true :=
  occurrences_wt g deps ty v c h x hx

/-- Any finite sequence of create / map (GE, SGE, dynamic SGE) / mutate / crossover / select
operations (`Op`, `runOps` in Lemmas/WellTyped.lean; deciders, genotypes and indices arbitrary,
failing operations allowed) applied to a pool of well-typed programs leaves a pool of well-typed
programs.  Every prefix of a sequence is a sequence, so every program EVER in the pool is
well-typed (`C01_ops_ever_wt`). -/
theorem C01_ops_wt (g : Grammar) (hg : grammarWF g = true) (fuel : Nat) (ops : List Op)
    (pool : List Val) (s : SynSt)
    (hpool : ∀ p ∈ pool, wt g [] (.cls g.spec.start) p = true) :
    ∀ p ∈ (runOps g fuel ops pool s).1, wt g [] (.cls g.spec.start) p = true :=
  runOps_wt g (GWF_of_grammarWF g hg) fuel ops pool s hpool

theorem C01_ops_ever_wt (g : Grammar) (hg : grammarWF g = true) (fuel : Nat) (ops : List Op)
    (s : SynSt) (k : Nat) :
    ∀ p ∈ (runOps g fuel (ops.take k) [] s).1, wt g [] (.cls g.spec.start) p = true :=
  C01_ops_wt g hg fuel (ops.take k) [] s (fun _ h => by cases h)

/-- A foreign / partially built / lazily evaluated value (anything that is not one of the
library's own value forms) inhabits no type: the fitness function never receives one. -/
theorem C01_foreign_never_wt (g : Grammar) (deps : List (String × Val)) (ty : Ty) (tag : String) :
    wt g deps ty (.foreign tag) = false :=
  foreign_not_wt g deps tag ty

/-- ... not even nested anywhere inside a well-typed program. -/
theorem C01_foreign_never_inside (g : Grammar) (deps : List (String × Val)) (ty : Ty) (v : Val)
    (h : wt g deps ty v = true) (tag : String) : Val.foreign tag ∉ v.subvalues :=
  foreign_not_sub g v deps ty h tag

/-! ### Non-vacuity: the hypotheses hold on a concrete grammar and creation succeeds there -/

example : grammarWF exGWT = true := by decide
example : exGWT.altsOf 0 = some [1, 2, 3] := by decide
-- the side conditions on types are decidable and hold / fail as intended
example : tyWF (.ann (.list (.cls 0)) (.depListSize "n")) = true := by decide
example : tyWF (.ann .str (.intRange 0 5)) = false := by decide
example : depsOK [("n", .int 2)] (.ann (.list (.cls 0)) (.depListSize "n")) = true := by decide
example : depsOK [("n", .int (-1))] (.ann (.list (.cls 0)) (.depListSize "n")) = false := by decide
-- grow, full, PI-grow, GE and dynamic SGE all succeed on it, so the theorems apply
example : resIsOk (randomTree exGWT ⟨.grow, 1⟩ 30 (exStWT [0, 5])) = true := by decide
example : resIsOk (randomTree exGWT ⟨.grow, 2⟩ 30 (exStWT [2, 2, 0, 5, 0, 7, 1, 0, 1, 0, 1])) = true := by
  decide +kernel
example : resIsOk (randomTree exGWT ⟨.full, 3⟩ 30 (exStWT [2, 2, 0, 5, 0, 7, 1, 0, 1, 0, 1])) = true := by
  decide +kernel
example : resIsOk (mapGE exGWT ⟨.pigrow, 4⟩ 30 [2, 2, 0, 5, 1, 7, 1, 8, 1, 1, 2, 1, 5] true) = true := by
  decide +kernel
example : resIsOk (mapDSGE exGWT 3 30 [] { draws := [2, 2, 0, 5, 1, 7, 1, 8, 1, 1, 2, 1, 5] }) = true := by
  decide +kernel
example : ∃ v s', randomTree exGWT ⟨.grow, 2⟩ 30 (exStWT [2, 2, 0, 5, 0, 7, 1, 0, 1, 0, 1]) = .ok v s' ∧
    wt exGWT [] (.cls 0) v = true := by
  obtain ⟨v, s', h⟩ := (resIsOk_iff _).1
    (show resIsOk (randomTree exGWT ⟨.grow, 2⟩ 30 (exStWT [2, 2, 0, 5, 0, 7, 1, 0, 1, 0, 1])) = true by
      decide +kernel)
  exact ⟨v, s', h, C01_random_tree_wt exGWT (by decide) _ _ _ _ v h⟩
-- without `grammarWF` the statement is false: an abstract class registered without productions
-- is instantiated by the model (the real code raises KeyError there)
example : grammarWF (analyse { classes := [{ name := "A", abstract := true, parent := none, fields := [] }],
                               start := 0, considered := [0] }) = false := by decide

end GEVerif.C01
