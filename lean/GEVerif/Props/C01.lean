/-
  C01 — every produced program is well-typed.

  `wt g deps ty v` (Model/Tree.lean) is the full recursive type check of the property statement:
  a registered concrete production where a class is declared, well-typed elements for a list, a
  real tuple of the declared arity, one of the alternatives for a union, exactly the declared
  base type for int / float / str / bool, and every refinement satisfied (dependent ones against
  the actual earlier siblings).  The hypotheses are decidable (`Bool`-valued):

  * `grammarWF g`  — on the analysed grammar (Lemmas/WellTyped.lean);
  * `tyWF ty`, `depsOK deps ty` — only for creation from an ARBITRARY type expression with
    ARBITRARY sibling values; both are `true` by computation for a class symbol (`.cls n`), so
    they disappear from every statement about whole programs.
-/
import GEVerif.Lemmas.WellTyped
import GEVerif.Lemmas.StackMachine

namespace GEVerif.C01
open GEVerif GEVerif.WellTyped

/-- MAIN THEOREM.  Whatever the decider kind, the fuel, the type, the synthesis context, the
sibling values and the state (random source / genotype / PI-grow flag) are: if `create_node`
returns a value, the value is well-typed for the requested type. -/
theorem C01_create_wt (g : Grammar) (hg : grammarWF g = true) (dec : Decider) (fuel : Nat)
    (ty : Ty) (ctx : Ctx) (deps : List (String × Val)) (s s' : SynSt) (v : Val)
    (hty : tyWF ty = true) (hdeps : depsOK deps ty = true)
    (h : createNode g dec fuel ty ctx deps s = .ok v s') : wt g deps ty v = true :=
  (createOK g (GWF_of_grammarWF g hg) dec fuel).1 ty ctx deps s v s' hty hdeps h

/-- For a class symbol the side conditions on the type are vacuous. -/
theorem C01_create_cls_wt (g : Grammar) (hg : grammarWF g = true) (dec : Decider) (fuel : Nat)
    (n : Nat) (ctx : Ctx) (deps : List (String × Val)) (s s' : SynSt) (v : Val)
    (h : createNode g dec fuel (.cls n) ctx deps s = .ok v s') : wt g deps (.cls n) v = true :=
  C01_create_wt g hg dec fuel (.cls n) ctx deps s s' v (by simp [tyWF]) (by simp [depsOK, sizeDeps]) h

/-- `random_tree` (every initialiser is `random_tree` with one of the deciders). -/
theorem C01_random_tree_wt (g : Grammar) (hg : grammarWF g = true) (dec : Decider) (fuel : Nat)
    (s s' : SynSt) (v : Val) (h : randomTree g dec fuel s = .ok v s') :
    wt g [] (.cls g.spec.start) v = true :=
  C01_create_cls_wt g hg dec fuel _ _ _ s s' v h

/-- GE: the program mapped from ANY genotype is well-typed. -/
theorem C01_mapGE_wt (g : Grammar) (hg : grammarWF g = true) (dec : Decider) (fuel : Nat)
    (dna : List Int) (expanding : Bool) (v : Val) (s' : SynSt)
    (h : mapGE g dec fuel dna expanding = .ok v s') : wt g [] (.cls g.spec.start) v = true :=
  C01_create_cls_wt g hg dec fuel _ _ _ _ s' v h

/-- SGE -/
theorem C01_mapSGE_wt (g : Grammar) (hg : grammarWF g = true) (dec : Decider) (fuel : Nat)
    (dna : SGEDna) (expanding : Bool) (v : Val) (s' : SynSt)
    (h : mapSGE g dec fuel dna expanding = .ok v s') : wt g [] (.cls g.spec.start) v = true :=
  C01_mapGE_wt g hg dec fuel _ expanding v s' h

/-- dynamic SGE (for any genotype, any shared stream the genotype is extended from) -/
theorem C01_mapDSGE_wt (g : Grammar) (hg : grammarWF g = true) (maxDepth fuel : Nat)
    (dna : DSGEDna) (shared : Script) (v : Val) (s' : SynSt)
    (h : mapDSGE g maxDepth fuel dna shared = .ok v s') : wt g [] (.cls g.spec.start) v = true := by
  unfold mapDSGE at h
  simp only at h
  split at h
  · cases h
  · exact C01_create_cls_wt g hg _ fuel _ _ _ _ s' v h

/-- `tree_mutate`: the child is well-typed for the start symbol (at the pinned commit the
operator acts at the root and regenerates it, so nothing is even required of the parent). -/
theorem C01_mutate_wt (g : Grammar) (hg : grammarWF g = true) (dec : Decider) (fuel : Nat)
    (p : Val) (s s' : SynSt) (c : Val) (h : treeMutate g dec fuel p s = .ok c s') :
    wt g [] (.cls g.spec.start) c = true :=
  treeMutate_wt g (GWF_of_grammarWF g hg) dec fuel p s s' c h

/-- `tree_crossover`: children of well-typed parents are well-typed: each child is a fresh tree
or an occurrence of the start symbol inside the other (well-typed) parent. -/
theorem C01_crossover_wt (g : Grammar) (hg : grammarWF g = true) (dec : Decider) (fuel : Nat)
    (p1 p2 : Val) (s s' : SynSt) (c1 c2 : Val)
    (h1 : wt g [] (.cls g.spec.start) p1 = true) (h2 : wt g [] (.cls g.spec.start) p2 = true)
    (h : treeCrossover g dec fuel p1 p2 s = .ok (c1, c2) s') :
    wt g [] (.cls g.spec.start) c1 = true ∧ wt g [] (.cls g.spec.start) c2 = true :=
  treeCrossover_wt g (GWF_of_grammarWF g hg) dec fuel p1 p2 s s' c1 c2 h1 h2 h

/-- Donor material: every occurrence of class `c` anywhere inside a well-typed value (of any
type, under any sibling values) is itself a well-typed `c`. -/
theorem C01_occurrence_wt (g : Grammar) (deps : List (String × Val)) (ty : Ty) (v : Val) (c : Nat)
    (h : wt g deps ty v = true) (x : Val) (hx : x ∈ occurrences c v) :
    wt g [] (.cls c) x = true :=
  occurrences_wt g deps ty v c h x hx

/-- Any finite sequence of create / map (GE, SGE, dynamic SGE) / mutate / crossover / select
operations (`Op`, `runOps` in Lemmas/WellTyped.lean; deciders, genotypes and indices arbitrary,
failing operations allowed) applied to a pool of well-typed programs leaves a pool of well-typed
programs.  Every prefix of a sequence is a sequence, so every program EVER in the pool is
well-typed (`C01_ops_ever_wt`). -/
theorem C01_ops_wt (g : Grammar) (hg : grammarWF g = true) (fuel : Nat) (ops : List Op)
    (pool : List Val) (s : SynSt)
    (hpool : ∀ p ∈ pool, wt g [] (.cls g.spec.start) p = true) :
    ∀ p ∈ (runOps g fuel ops pool s).1, wt g [] (.cls g.spec.start) p = true :=
  runOps_wt g (GWF_of_grammarWF g hg) fuel ops pool s hpool

theorem C01_ops_ever_wt (g : Grammar) (hg : grammarWF g = true) (fuel : Nat) (ops : List Op)
    (s : SynSt) (k : Nat) :
    ∀ p ∈ (runOps g fuel (ops.take k) [] s).1, wt g [] (.cls g.spec.start) p = true :=
  C01_ops_wt g hg fuel (ops.take k) [] s (fun _ h => by cases h)

/-- A foreign / partially built / lazily evaluated value (anything that is not one of the
library's own value forms) inhabits no type: the fitness function never receives one. -/
theorem C01_foreign_never_wt (g : Grammar) (deps : List (String × Val)) (ty : Ty) (tag : String) :
    wt g deps ty (.foreign tag) = false :=
  foreign_not_wt g deps tag ty

/-- ... not even nested anywhere inside a well-typed program. -/
theorem C01_foreign_never_inside (g : Grammar) (deps : List (String × Val)) (ty : Ty) (v : Val)
    (h : wt g deps ty v = true) (tag : String) : Val.foreign tag ∉ v.subvalues :=
  foreign_not_sub g v deps ty h tag

/-! ### Non-vacuity: the hypotheses hold on a concrete grammar and creation succeeds there -/

example : grammarWF exGWT = true := by decide
example : exGWT.altsOf 0 = some [1, 2, 3] := by decide
-- the side conditions on types are decidable and hold / fail as intended
example : tyWF (.ann (.list (.cls 0)) (.depListSize "n")) = true := by decide
example : tyWF (.ann .str (.intRange 0 5)) = false := by decide
example : depsOK [("n", .int 2)] (.ann (.list (.cls 0)) (.depListSize "n")) = true := by decide
example : depsOK [("n", .int (-1))] (.ann (.list (.cls 0)) (.depListSize "n")) = false := by decide
-- grow, full, PI-grow, GE and dynamic SGE all succeed on it, so the theorems apply
example : resIsOk (randomTree exGWT ⟨.grow, 1⟩ 30 (exStWT [0, 5])) = true := by decide
example : resIsOk (randomTree exGWT ⟨.grow, 2⟩ 30 (exStWT [2, 2, 0, 5, 0, 7, 1, 0, 1, 0, 1])) = true := by
  decide +kernel
example : resIsOk (randomTree exGWT ⟨.full, 3⟩ 30 (exStWT [2, 2, 0, 5, 0, 7, 1, 0, 1, 0, 1])) = true := by
  decide +kernel
example : resIsOk (mapGE exGWT ⟨.pigrow, 4⟩ 30 [2, 2, 0, 5, 1, 7, 1, 8, 1, 1, 2, 1, 5] true) = true := by
  decide +kernel
example : resIsOk (mapDSGE exGWT 3 30 [] { draws := [2, 2, 0, 5, 1, 7, 1, 8, 1, 1, 2, 1, 5] }) = true := by
  decide +kernel
example : ∃ v s', randomTree exGWT ⟨.grow, 2⟩ 30 (exStWT [2, 2, 0, 5, 0, 7, 1, 0, 1, 0, 1]) = .ok v s' ∧
    wt exGWT [] (.cls 0) v = true := by
  obtain ⟨v, s', h⟩ := (resIsOk_iff _).1
    (show resIsOk (randomTree exGWT ⟨.grow, 2⟩ 30 (exStWT [2, 2, 0, 5, 0, 7, 1, 0, 1, 0, 1])) = true by
      decide +kernel)
  exact ⟨v, s', h, C01_random_tree_wt exGWT (by decide) _ _ _ _ v h⟩
-- without `grammarWF` the statement is false: an abstract class registered without productions
-- is instantiated by the model (the real code raises KeyError there)
example : grammarWF (analyse { classes := [{ name := "A", abstract := true, parent := none, fields := [] }],
                               start := 0, considered := [0] }) = false := by decide

/-! ### The stack machine (`StackBasedGGGPRepresentation.genotype_to_phenotype`)

`create_tree_using_stacks` (Model/Stack.lean) fills a refined (`Annotated`) field with the base
type's no-argument constructor and never validates it, so its programs are well-typed only
STRUCTURALLY: for the grammar with every refinement erased (`stripG g`: the classes of `g` with
`stripTy` applied to every field type, the registration of `g`; for a grammar without refinements
`stripG g = g`).  Refinement satisfaction fails: `C02_stack_refinement_witness`.

Hypotheses (decidable) on the symbol list `order` (`sorted(g.get_all_mentioned_symbols())`):
* `orderRegistered g order` — its classes are registered symbols of `g`;
* `annDefaultsOK order`     — the base of every refined symbol is not a NON-EMPTY tuple (nor a union
  or a class): `tuple[int, int]()` is `()`, which is no pair — `C01_stack_ann_tuple_witness`.

The proof is the STACK INVARIANT `StackLemmas.Inv`: every value on `stacks[t]` is well-typed for `t`
with the refinements erased; it holds initially and is preserved by every step for every target
(`StackLemmas.step_inv`). -/

open GEVerif.StackLemmas in
/-- the stack machine on ANY grammar (refined fields allowed) with ANY genotype, failure limit and
fuel: the program is well-typed for the grammar with the refinements erased -/
theorem C01_mapStack_wt_erased (g : Grammar) (hg : grammarWF g = true) (order : List Ty)
    (hreg : orderRegistered g order = true) (hann : annDefaultsOK order = true)
    (limit fuel : Nat) (dna : List Int) (v : Val) (s' : SynSt)
    (h : Stack.mapStack g order limit fuel dna = .ok v s') :
    wt (stripG g) [] (.cls g.spec.start) v = true :=
  mapStack_wtS g (GWF_of_grammarWF g hg).alts order hreg hann limit fuel dna v s' h

open GEVerif.StackLemmas in
/-- … in particular on a grammar whose fields carry no refinement (e.g. `analyse (stripSpec spec)`)
the program is well-typed, full stop -/
theorem C01_mapStack_wt_struct (g : Grammar) (hg : grammarWF g = true)
    (hs : fieldsStripped g = true) (order : List Ty)
    (hreg : orderRegistered g order = true) (hann : annDefaultsOK order = true)
    (limit fuel : Nat) (dna : List Int) (v : Val) (s' : SynSt)
    (h : Stack.mapStack g order limit fuel dna = .ok v s') :
    wt g [] (.cls g.spec.start) v = true := by
  have := C01_mapStack_wt_erased g hg order hreg hann limit fuel dna v s' h
  rwa [stripG_of_fieldsStripped g hs] at this

open GEVerif.StackLemmas in
/-- … and the same in the form the differential harness evaluates on the real library's output
(`prop_wt_struct`): the program is well-typed for the RE-ANALYSED stripped declarations
`analyse (stripSpec spec)`.  `sameReg spec` (decidable, `true` by computation on a concrete
grammar) says that stripping did not change the registration — registration never looks at a
refinement. -/
theorem C01_mapStack_wt_stripSpec (spec : GrammarSpec) (hg : grammarWF (analyse spec) = true)
    (hsame : sameReg spec = true) (order : List Ty)
    (hreg : orderRegistered (analyse spec) order = true) (hann : annDefaultsOK order = true)
    (limit fuel : Nat) (dna : List Int) (v : Val) (s' : SynSt)
    (h : Stack.mapStack (analyse spec) order limit fuel dna = .ok v s') :
    wt (analyse (stripSpec spec)) [] (.cls spec.start) v = true :=
  mapStack_wt_stripSpec spec (GWF_of_grammarWF _ hg).alts hsame order hreg hann limit fuel dna v s' h

open GEVerif.StackLemmas in
/-- Why `annDefaultsOK`: for `Root(iv: Annotated[tuple[int, int], IntervalRange(1, 2, 10)])` the
machine returns `Root(())`, whose field is not a pair: ill-typed even with the refinement erased
(both for `stripG` and for the re-analysed stripped declarations).  Open finding
`refined-tuple-field-is-empty-tuple`. -/
theorem C01_stack_ann_tuple_witness :
    grammarWF stackTupG = true ∧ orderRegistered stackTupG stackTupOrder = true ∧
    annDefaultsOK stackTupOrder = false ∧
    Stack.mapStack stackTupG stackTupOrder 100 10 [0, 200000, 0] =
      .ok (.node 0 0 0 [.tuple []]) { src := .gene { dna := [0, 200000, 0], index := 2 } } ∧
    wt (stripG stackTupG) [] (.cls 0) (.node 0 0 0 [.tuple []]) = false ∧
    wt (analyse (stripSpec stackTupSpec)) [] (.cls 0) (.node 0 0 0 [.tuple []]) = false := by
  refine ⟨by decide, by decide, by decide, by rfl, ?_, ?_⟩
  · have hf : ((stripG stackTupG).cls 0).fields = [("iv", .tuple [.int, .int])] := by rfl
    rw [wt]
    simp only [hf]
    simp [wtFields, wt, wtTuple]
  · have hf : ((analyse (stripSpec stackTupSpec)).cls 0).fields = [("iv", .tuple [.int, .int])] := by rfl
    rw [wt]
    simp only [hf]
    simp [wtFields, wt, wtTuple]

open GEVerif.StackLemmas in
/-- The exceptions of the stack machine.  When the loop gives up it is with `GeneticEngineError`
("Stack genome not enough", `.library`) -- at the failure limit, or when the operation budget `fuel` is used up (the
repaired loop's `failures_limit * len(dna)`; before the repair a genotype that never assembled a program, a constant one
for instance, was read round and round forever) --; anything else needs a
degenerate symbol list: `KeyError` — an abstract class without registered productions (open
finding), `AssertionError` — `choice([])` on an abstract class with an empty production list or
an empty `Union`, `IndexError` — no symbols at all.  (`ValueError`, `randint` on an empty range,
cannot happen.)  The model reads an empty genotype as zeros; the real `ListWrapper` divides by
`len(dna) = 0` there, so read the statement for non-empty genotypes. -/
theorem C01_mapStack_err_library_or_foreign (g : Grammar) (order : List Ty) (limit fuel : Nat)
    (dna : List Int) (e : Err) (s' : SynSt)
    (h : Stack.mapStack g order limit fuel dna = .err e s') :
    e = .library ∨
    (orderProductive g order = false ∧
      (e = .foreign "KeyError" ∨ e = .foreign "AssertionError" ∨ e = .foreign "IndexError")) :=
  mapStack_err g order limit fuel dna e s' h

open GEVerif.StackLemmas in
/-- … and for a non-empty symbol list whose abstract classes have productions and whose unions
have alternatives (`orderProductive`, decidable): `GeneticEngineError`, nothing else -- for EVERY operation budget
`fuel` (the repaired loop performs at most `failures_limit * len(dna)` operations: it always terminates, and when the
budget is used up it fails with the library's own error like it does at the failure limit) -/
theorem C01_mapStack_err_library (g : Grammar) (order : List Ty)
    (hprod : orderProductive g order = true) (limit fuel : Nat)
    (dna : List Int) (e : Err) (s' : SynSt)
    (h : Stack.mapStack g order limit fuel dna = .err e s') :
    e = .library := by
  rcases mapStack_err g order limit fuel dna e s' h with h | ⟨h, _⟩
  · exact h
  · rw [hprod] at h; cases h

/-! #### Non-vacuity (stack machine) -/

section
open GEVerif.StackLemmas

-- a grammar with an abstract class, a tuple, a list, a union and a refined field: the machine
-- returns `Root(Lit(9), (5, True), [7], "", 0)`, structurally well-typed by the theorem …
example : grammarWF stackExG = true ∧ orderRegistered stackExG stackExOrder = true ∧
    annDefaultsOK stackExOrder = true ∧ orderProductive stackExG stackExOrder = true := by decide
example : okVal (Stack.mapStack stackExG stackExOrder 100 50 stackExDna) stackExVal = true := by
  decide +kernel
example : ∃ s', Stack.mapStack stackExG stackExOrder 100 50 stackExDna = .ok stackExVal s' ∧
    wt (stripG stackExG) [] (.cls 0) stackExVal = true := by
  obtain ⟨s', h⟩ := okVal_spec _ _
    (show okVal (Stack.mapStack stackExG stackExOrder 100 50 stackExDna) stackExVal = true by
      decide +kernel)
  exact ⟨s', h, C01_mapStack_wt_erased stackExG (by decide) _ (by decide) (by decide) _ _ _ _ _ h⟩
-- … the same declarations with the refinement erased: `fieldsStripped` holds, the program is
-- well-typed
example : grammarWF stackExGS = true ∧ fieldsStripped stackExGS = true ∧
    orderRegistered stackExGS stackExOrderS = true ∧ annDefaultsOK stackExOrderS = true := by decide
example : fieldsStripped stackExG = false := by decide
example : ∃ s', Stack.mapStack stackExGS stackExOrderS 100 50 stackExDnaS = .ok stackExValS s' ∧
    wt stackExGS [] (.cls stackExGS.spec.start) stackExValS = true := by
  obtain ⟨s', h⟩ := okVal_spec _ _
    (show okVal (Stack.mapStack stackExGS stackExOrderS 100 50 stackExDnaS) stackExValS = true by
      decide +kernel)
  exact ⟨s', h, C01_mapStack_wt_struct stackExGS (by decide) (by decide) _ (by decide) (by decide)
    _ _ _ _ _ h⟩
-- the registration is not changed by erasing refinements; the harness form of the theorem applies
example : sameReg stackExSpec = true ∧ sameReg stackRefSpec = true ∧ sameReg stackTupSpec = true ∧
    sameReg exSpecWT = true := by decide +kernel
example : ∃ s', Stack.mapStack stackExG stackExOrder 100 50 stackExDna = .ok stackExVal s' ∧
    wt stackExGS [] (.cls 0) stackExVal = true := by
  obtain ⟨s', h⟩ := okVal_spec _ _
    (show okVal (Stack.mapStack stackExG stackExOrder 100 50 stackExDna) stackExVal = true by
      decide +kernel)
  exact ⟨s', h, C01_mapStack_wt_stripSpec stackExSpec (by decide) (by decide +kernel) _ (by decide)
    (by decide) _ _ _ _ _ h⟩
-- the loop gives up with `GeneticEngineError` after `limit` failures and when its operation budget is used up; `KeyError` on
-- an abstract class without productions in the symbol list
example : errIs (Stack.mapStack stackExG stackExOrder 3 50 [0, 0]) .library = true := by decide +kernel
example : errIs (Stack.mapStack stackExG stackExOrder 100 2 [0, 300000, 7]) .library = true := by
  decide +kernel
-- a constant genotype pushes ints for ever: the operation budget (failures_limit * len(dna) = 8 here) ends the mapping
example : errIs (Stack.mapStack stackExG stackExOrder 4 (4 * 2) [0, 0]) .library = true := by decide +kernel
example : errIs (Stack.mapStack
    (analyse { classes := [{ name := "A", abstract := true, parent := none, fields := [] }],
               start := 0, considered := [0] }) [.cls 0] 100 5 [0, 0]) (.foreign "KeyError") = true := by
  decide +kernel
end

end GEVerif.C01
