/-
  C01 — every produced program is well-typed (theorems are added below as they are proved).
-/
import GEVerif.Model.Synth

namespace GEVerif.C01
open GEVerif

theorem C01_placeholder : True := trivial

end GEVerif.C01
