/-
  C04 — depth-bounded creation reaches exactly the bounded language.
-/
import GEVerif.Model.Lang
import GEVerif.Props.C01
import GEVerif.Props.C03
import GEVerif.Lemmas.Language

namespace GEVerif.C04
open GEVerif GEVerif.WellTyped GEVerif.Depth GEVerif.Analysis GEVerif.Language

/-! ### 1. Soundness of creation: no invalid program is reachable -/

/-- Whatever the state (random source, genotype, PI-grow flag) and the fuel: a program returned by
`random_tree` under a valid depth-limited decider is a well-typed, refinement-satisfying program
of the start symbol and respects the depth limit. -/
theorem C04_reachable_in_language_spec (g : Grammar) (dec : Decider) (fuel : Nat) (s s' : SynSt)
    (v : Val) (hg : grammarWF g = true) (hc : distConsistent g = true)
    (hk : dec.kind.depthLimited = true) (hD : dec.maxDepth < INF)
    (hv : deciderValid g dec = true) (h : randomTree g dec fuel s = .ok v s') :
    wt g [] (.cls g.spec.start) v = true ∧ v.depth ≤ dec.maxDepth :=
  ⟨C01.C01_random_tree_wt g hg dec fuel s s' v h,
   C03.C03_random_tree_depth g dec fuel s s' v hc hk hD hv h⟩

theorem C04_grow_sound (g : Grammar) (d fuel : Nat) (s s' : SynSt) (v : Val)
    (hg : grammarWF g = true) (hc : distConsistent g = true) (hD : d < INF)
    (hv : g.minTreeDepth ≤ d) (h : randomTree g ⟨.grow, d⟩ fuel s = .ok v s') :
    wt g [] (.cls g.spec.start) v = true ∧ v.depth ≤ d :=
  C04_reachable_in_language_spec g ⟨.grow, d⟩ fuel s s' v hg hc rfl hD
    (by simpa [deciderValid] using hv) h

theorem C04_full_sound (g : Grammar) (d fuel : Nat) (s s' : SynSt) (v : Val)
    (hg : grammarWF g = true) (hc : distConsistent g = true) (hD : d < INF)
    (hv : g.minTreeDepth ≤ d) (h : randomTree g ⟨.full, d⟩ fuel s = .ok v s') :
    wt g [] (.cls g.spec.start) v = true ∧ v.depth ≤ d :=
  C04_reachable_in_language_spec g ⟨.full, d⟩ fuel s s' v hg hc rfl hD
    (by simpa [deciderValid] using hv) h

theorem C04_pigrow_sound (g : Grammar) (d fuel : Nat) (s s' : SynSt) (v : Val)
    (hg : grammarWF g = true) (hc : distConsistent g = true) (hD : d < INF)
    (hv : g.minTreeDepth ≤ d) (h : randomTree g ⟨.pigrow, d⟩ fuel s = .ok v s') :
    wt g [] (.cls g.spec.start) v = true ∧ v.depth ≤ d :=
  C04_reachable_in_language_spec g ⟨.pigrow, d⟩ fuel s s' v hg hc rfl hD
    (by simpa [deciderValid] using hv) h

theorem C04_dsge_sound (g : Grammar) (d fuel : Nat) (s s' : SynSt) (v : Val)
    (hg : grammarWF g = true) (hc : distConsistent g = true) (hD : d < INF)
    (hv : g.minTreeDepth ≤ d) (h : randomTree g ⟨.dsge, d⟩ fuel s = .ok v s') :
    wt g [] (.cls g.spec.start) v = true ∧ v.depth ≤ d :=
  C04_reachable_in_language_spec g ⟨.dsge, d⟩ fuel s s' v hg hc rfl hD
    (by simpa [deciderValid] using hv) h

/-! ### 2. The enumerator `langTy` / `boundedLanguage` is sound (every fuel)

`tyWF ty` is only needed for `strSize` alphabets (entries must be single characters, otherwise a
"string of length k" built from `k` entries is longer than `k`); it is `true` by computation for a
class symbol. -/

/-- Every value the enumerator lists is well-typed for the type (whatever the sibling values:
only refinements without dependencies are enumerated), refinements included, within the depth
budget, and carries no synthesis metadata.  For EVERY fuel. -/
theorem C04_language_sound (g : Grammar) (hg : grammarWF g = true) (fuel budget : Nat) (ty : Ty)
    (v : Val) (hty : tyWF ty = true) (h : v ∈ langTy g fuel budget ty) :
    (∀ deps, wt g deps ty v = true) ∧ v.depth ≤ budget ∧ v.erase = v :=
  let hs := (soundP_all g (GWF_of_grammarWF g hg) fuel).1 budget ty v hty h
  ⟨hs.1, hs.2.1, hs.2.2.1⟩

theorem C04_bounded_language_sound (g : Grammar) (hg : grammarWF g = true) (d : Nat) (v : Val)
    (h : v ∈ boundedLanguage g d) :
    wt g [] (.cls g.spec.start) v = true ∧ v.depth ≤ d ∧ v.erase = v :=
  let hs := C04_language_sound g hg _ d _ v rfl h
  ⟨hs.1 [], hs.2⟩

/-- More fuel never loses a program. -/
theorem C04_language_fuel_mono (g : Grammar) (fuel fuel' budget : Nat) (ty : Ty) (v : Val)
    (hle : fuel ≤ fuel') (h : v ∈ langTy g fuel budget ty) : v ∈ langTy g fuel' budget ty :=
  langTy_mono_le g budget ty v fuel fuel' hle h

/-! ### 3. The enumerator is complete

`fuelOK g fuel budget ty` (Lemmas/Language.lean, decidable): the enumeration of `ty` never runs
out of fuel.  `fcTy` / `fcGrammar`: `finiteChoiceTy` / `finiteChoice` without the plain `str`
(`wt` accepts every string there, creation and the enumerator only `""`).  `altsAbstract`: only
abstract classes have registered productions.  `ClosedNodes`: every symbol mentioned by a
registered symbol is registered. -/

theorem C04_language_complete (g : Grammar) (hg : grammarWF g = true)
    (habs : altsAbstract g = true) (hcl : ClosedNodes g.spec g.reg) (hfc : fcGrammar g = true)
    (fuel budget : Nat) (ty : Ty) (deps : List (String × Val)) (v : Val)
    (hok : fuelOK g fuel budget ty = true) (hty : fcTy ty = true)
    (hreg : ∀ s ∈ explode ty, s ∈ g.reg.allNodes)
    (hw : wt g deps ty v = true) (hd : v.depth ≤ budget) (he : v.erase = v) :
    v ∈ langTy g fuel budget ty :=
  (completeP_all g ⟨GWF_of_grammarWF g hg, habs, hcl, hfc⟩ fuel).1 budget ty deps v hok hty hreg
    hw hd he

/-- Enough fuel exists for every type and budget, and stays enough. -/
theorem C04_language_fuel_exists (g : Grammar) (hg : grammarWF g = true) (budget : Nat) (ty : Ty) :
    ∃ F, ∀ fuel, F ≤ fuel → fuelOK g fuel budget ty = true := by
  obtain ⟨F, hF⟩ := exists_fuel g (GWF_of_grammarWF g hg).alts budget ty
  exact ⟨F, fun fuel hle => fuelOK_mono_le g budget ty F fuel hle hF⟩

/-- EXACTNESS: from some fuel on, the enumerator lists exactly the well-typed,
refinement-satisfying, metadata-free values of the type within the depth budget. -/
theorem C04_language_exact (g : Grammar) (hg : grammarWF g = true)
    (habs : altsAbstract g = true) (hcl : ClosedNodes g.spec g.reg) (hfc : fcGrammar g = true)
    (budget : Nat) (ty : Ty) (hwf : tyWF ty = true) (hty : fcTy ty = true)
    (hreg : ∀ s ∈ explode ty, s ∈ g.reg.allNodes) :
    ∃ F, ∀ fuel, F ≤ fuel → ∀ v,
      v ∈ langTy g fuel budget ty ↔ (wt g [] ty v = true ∧ v.depth ≤ budget ∧ v.erase = v) := by
  obtain ⟨F, hF⟩ := C04_language_fuel_exists g hg budget ty
  refine ⟨F, fun fuel hle v => ⟨fun h => ?_, fun h => ?_⟩⟩
  · have hs := C04_language_sound g hg fuel budget ty v hwf h
    exact ⟨hs.1 [], hs.2⟩
  · exact C04_language_complete g hg habs hcl hfc fuel budget ty [] v (hF fuel hle) hty hreg
      h.1 h.2.1 h.2.2

/-- `boundedLanguage g d` is exactly the set of well-typed programs of the start symbol of depth
at most `d` (metadata erased), provided its fuel is enough (`fuelOK`, checked by evaluation). -/
theorem C04_bounded_language_exact (g : Grammar) (hg : grammarWF g = true)
    (habs : altsAbstract g = true) (hcl : ClosedNodes g.spec g.reg) (hfc : fcGrammar g = true)
    (d : Nat) (hstart : Sym.cls g.spec.start ∈ g.reg.allNodes)
    (hok : fuelOK g (4 * (d + 2) * (g.spec.classes.length + 4) * (specSize g.spec + 2) + 64) d
      (.cls g.spec.start) = true) (v : Val) :
    v ∈ boundedLanguage g d ↔
      (wt g [] (.cls g.spec.start) v = true ∧ v.depth ≤ d ∧ v.erase = v) := by
  refine ⟨C04_bounded_language_sound g hg d v, fun h => ?_⟩
  exact C04_language_complete g hg habs hcl hfc _ d _ [] v hok rfl
    (by intro s hs; simp only [explode, List.mem_singleton] at hs; rw [hs]; exact hstart)
    h.1 h.2.1 h.2.2

/-- the strict finite-choice predicates imply the model's -/
theorem C04_fc_finiteChoice (g : Grammar) (h : fcGrammar g = true) : finiteChoice g = true :=
  fcGrammar_finiteChoice g h

end GEVerif.C04
