/-
  C04 — depth-bounded creation reaches exactly the bounded language (theorems are added below).
-/
import GEVerif.Model.Lang

namespace GEVerif.C04
open GEVerif

theorem C04_placeholder : True := trivial

end GEVerif.C04
