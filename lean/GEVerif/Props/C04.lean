/-
  C04 — depth-bounded creation reaches exactly the grammar's bounded language.

  Full statement (properties.jsonl): "for a grammar with finitely many choices, the set of
  programs that depth-limited grow creation can produce at maximum depth d is exactly the set of
  well-typed, refinement-satisfying programs of depth at most d: no valid program is unreachable
  and no invalid one is reachable ... position-independent grow never leaves the bounded language".

  On the code as it stands "no valid program is unreachable" is FALSE for programs containing an
  empty list (`C04_grow_complete_witness`, consequence of the C05 finding).  Proved here:

  1. no invalid program is reachable — grow, full, PI-grow, dSGE, every state and fuel
     (`C04_reachable_in_language_spec`, `C04_grow_sound`, `C04_full_sound`, `C04_pigrow_sound`,
     `C04_dsge_sound`), and in the form the harness checks, `v.erase ∈ boundedLanguage g d`
     (`C04_reachable_in_bounded_language`);
  2. the enumerator `langTy` / `boundedLanguage` (Model/Lang.lean) is sound for every fuel
     (`C04_language_sound`, `C04_bounded_language_sound`), monotone in the fuel
     (`C04_language_fuel_mono`), complete whenever the fuel is enough (`C04_language_complete`;
     `fuelOK` is decidable), enough fuel exists (`C04_language_fuel_exists`) and the fuel of
     `boundedLanguage` is enough (`C04_bounded_fuel_adequate`): `boundedLanguage g d` is exactly
     the specification set (`C04_language_exact`, `C04_bounded_language_spec`);
  3. every program WITHOUT EMPTY LISTS of the bounded language is reachable by grow under some
     script (`C04_grow_complete_language_partial`, `C04_grow_complete_bounded_partial`,
     `C04_grow_complete_partial`), hence exactness on those programs (`C04_grow_exact_partial`,
     `C04_grow_bounded_language_exact_partial`);
  4. what the depth filter lets through (`C04_reachable_production_fits`), the witness
     (`C04_grow_complete_witness`), and FullDecider's frontier preference
     (`C04_full_frontier_partial`).

  NOT proved: "full creation produces exactly the programs all of whose branches end at the
  maximum depth" (on the pinned tree `FullDecider(d)` ends branches at `d - 1`, DESIGN.md §5).

  Definitions (Lemmas/Language.lean): `fcTy` / `fcGrammar` (finite choice, plain `str` excluded),
  `fuelOK` (the enumeration is not cut short), `prodsShort`, `levelCost`, `scriptSt`, `Produces` /
  `Steer` (scripts that steer a computation), `GrowOK`, the grammars `wG`, `exLG`.
-/
import GEVerif.Model.Lang
import GEVerif.Props.C01
import GEVerif.Props.C03
import GEVerif.Props.C05
import GEVerif.Lemmas.Language

namespace GEVerif.C04
open GEVerif GEVerif.WellTyped GEVerif.Depth GEVerif.Analysis GEVerif.Language

/-! ### 1. Soundness of creation: no invalid program is reachable -/

/-- Whatever the state (random source, genotype, PI-grow flag) and the fuel: a program returned by
`random_tree` under a valid depth-limited decider is a well-typed, refinement-satisfying program
of the start symbol and respects the depth limit. -/
theorem C04_reachable_in_language_spec (g : Grammar) (dec : Decider) (fuel : Nat) (s s' : SynSt)
    (v : Val) (hg : grammarWF g = true) (hc : distConsistent g = true)
    (hk : dec.kind.depthLimited = true) (hD : dec.maxDepth < INF)
    (hv : deciderValid g dec = true) (h : randomTree g dec fuel s = .ok v s') :
    wt g [] (.cls g.spec.start) v = true ∧ v.depth ≤ dec.maxDepth :=
  ⟨C01.C01_random_tree_wt g hg dec fuel s s' v h,
   C03.C03_random_tree_depth g dec fuel s s' v hc hk hD hv h⟩

theorem C04_grow_sound (g : Grammar) (d fuel : Nat) (s s' : SynSt) (v : Val)
    (hg : grammarWF g = true) (hc : distConsistent g = true) (hD : d < INF)
    (hv : g.minTreeDepth ≤ d) (h : randomTree g ⟨.grow, d⟩ fuel s = .ok v s') :
    wt g [] (.cls g.spec.start) v = true ∧ v.depth ≤ d :=
  C04_reachable_in_language_spec g ⟨.grow, d⟩ fuel s s' v hg hc rfl hD
    (by simpa [deciderValid] using hv) h

theorem C04_full_sound (g : Grammar) (d fuel : Nat) (s s' : SynSt) (v : Val)
    (hg : grammarWF g = true) (hc : distConsistent g = true) (hD : d < INF)
    (hv : g.minTreeDepth ≤ d) (h : randomTree g ⟨.full, d⟩ fuel s = .ok v s') :
    wt g [] (.cls g.spec.start) v = true ∧ v.depth ≤ d :=
  C04_reachable_in_language_spec g ⟨.full, d⟩ fuel s s' v hg hc rfl hD
    (by simpa [deciderValid] using hv) h

theorem C04_pigrow_sound (g : Grammar) (d fuel : Nat) (s s' : SynSt) (v : Val)
    (hg : grammarWF g = true) (hc : distConsistent g = true) (hD : d < INF)
    (hv : g.minTreeDepth ≤ d) (h : randomTree g ⟨.pigrow, d⟩ fuel s = .ok v s') :
    wt g [] (.cls g.spec.start) v = true ∧ v.depth ≤ d :=
  C04_reachable_in_language_spec g ⟨.pigrow, d⟩ fuel s s' v hg hc rfl hD
    (by simpa [deciderValid] using hv) h

theorem C04_dsge_sound (g : Grammar) (d fuel : Nat) (s s' : SynSt) (v : Val)
    (hg : grammarWF g = true) (hc : distConsistent g = true) (hD : d < INF)
    (hv : g.minTreeDepth ≤ d) (h : randomTree g ⟨.dsge, d⟩ fuel s = .ok v s') :
    wt g [] (.cls g.spec.start) v = true ∧ v.depth ≤ d :=
  C04_reachable_in_language_spec g ⟨.dsge, d⟩ fuel s s' v hg hc rfl hD
    (by simpa [deciderValid] using hv) h

/-! ### 2. The enumerator `langTy` / `boundedLanguage` is sound (every fuel)

`tyWF ty` is only needed for `strSize` alphabets (entries must be single characters, otherwise a
"string of length k" built from `k` entries is longer than `k`); it is `true` by computation for a
class symbol. -/

/-- Every value the enumerator lists is well-typed for the type (whatever the sibling values:
only refinements without dependencies are enumerated), refinements included, within the depth
budget, and carries no synthesis metadata.  For EVERY fuel. -/
theorem C04_language_sound (g : Grammar) (hg : grammarWF g = true) (fuel budget : Nat) (ty : Ty)
    (v : Val) (hty : tyWF ty = true) (h : v ∈ langTy g fuel budget ty) :
    (∀ deps, wt g deps ty v = true) ∧ v.depth ≤ budget ∧ v.erase = v :=
  let hs := (soundP_all g (GWF_of_grammarWF g hg) fuel).1 budget ty v hty h
  ⟨hs.1, hs.2.1, hs.2.2.1⟩

theorem C04_bounded_language_sound (g : Grammar) (hg : grammarWF g = true) (d : Nat) (v : Val)
    (h : v ∈ boundedLanguage g d) :
    wt g [] (.cls g.spec.start) v = true ∧ v.depth ≤ d ∧ v.erase = v :=
  let hs := C04_language_sound g hg _ d _ v rfl h
  ⟨hs.1 [], hs.2⟩

/-- More fuel never loses a program. -/
theorem C04_language_fuel_mono (g : Grammar) (fuel fuel' budget : Nat) (ty : Ty) (v : Val)
    (hle : fuel ≤ fuel') (h : v ∈ langTy g fuel budget ty) : v ∈ langTy g fuel' budget ty :=
  langTy_mono_le g budget ty v fuel fuel' hle h

/-! ### 3. The enumerator is complete

`fuelOK g fuel budget ty` (Lemmas/Language.lean, decidable): the enumeration of `ty` never runs
out of fuel.  `fcTy` / `fcGrammar`: `finiteChoiceTy` / `finiteChoice` without the plain `str`
(`wt` accepts every string there, creation and the enumerator only `""`).  `altsAbstract`: only
abstract classes have registered productions.  `ClosedNodes`: every symbol mentioned by a
registered symbol is registered. -/

/-- A well-typed value within the depth budget is listed, up to its synthesis metadata (so a
metadata-free one is listed itself). -/
theorem C04_language_complete (g : Grammar) (hg : grammarWF g = true)
    (habs : altsAbstract g = true) (hcl : ClosedNodes g.spec g.reg) (hfc : fcGrammar g = true)
    (fuel budget : Nat) (ty : Ty) (deps : List (String × Val)) (v : Val)
    (hok : fuelOK g fuel budget ty = true) (hty : fcTy ty = true)
    (hreg : ∀ s ∈ explode ty, s ∈ g.reg.allNodes)
    (hw : wt g deps ty v = true) (hd : v.depth ≤ budget) :
    v.erase ∈ langTy g fuel budget ty :=
  (completeP_all g ⟨GWF_of_grammarWF g hg, habs, hcl, hfc⟩ fuel).1 budget ty deps v hok hty hreg
    hw hd

/-- Enough fuel exists for every type and budget, and stays enough. -/
theorem C04_language_fuel_exists (g : Grammar) (hg : grammarWF g = true) (budget : Nat) (ty : Ty) :
    ∃ F, ∀ fuel, F ≤ fuel → fuelOK g fuel budget ty = true := by
  obtain ⟨F, hF⟩ := exists_fuel g (GWF_of_grammarWF g hg).alts budget ty
  exact ⟨F, fun fuel hle => fuelOK_mono_le g budget ty F fuel hle hF⟩

/-- EXACTNESS: from some fuel on, the enumerator lists exactly the well-typed,
refinement-satisfying, metadata-free values of the type within the depth budget. -/
theorem C04_language_exact (g : Grammar) (hg : grammarWF g = true)
    (habs : altsAbstract g = true) (hcl : ClosedNodes g.spec g.reg) (hfc : fcGrammar g = true)
    (budget : Nat) (ty : Ty) (hwf : tyWF ty = true) (hty : fcTy ty = true)
    (hreg : ∀ s ∈ explode ty, s ∈ g.reg.allNodes) :
    ∃ F, ∀ fuel, F ≤ fuel → ∀ v,
      v ∈ langTy g fuel budget ty ↔ (wt g [] ty v = true ∧ v.depth ≤ budget ∧ v.erase = v) := by
  obtain ⟨F, hF⟩ := C04_language_fuel_exists g hg budget ty
  refine ⟨F, fun fuel hle v => ⟨fun h => ?_, fun h => ?_⟩⟩
  · have hs := C04_language_sound g hg fuel budget ty v hwf h
    exact ⟨hs.1 [], hs.2⟩
  · have := C04_language_complete g hg habs hcl hfc fuel budget ty [] v (hF fuel hle) hty hreg
      h.1 h.2.1
    rwa [h.2.2] at this

/-- `boundedLanguage g d` is exactly the set of well-typed programs of the start symbol of depth
at most `d` (metadata erased), provided its fuel is enough (`fuelOK`, checked by evaluation). -/
theorem C04_bounded_language_exact (g : Grammar) (hg : grammarWF g = true)
    (habs : altsAbstract g = true) (hcl : ClosedNodes g.spec g.reg) (hfc : fcGrammar g = true)
    (d : Nat) (hstart : Sym.cls g.spec.start ∈ g.reg.allNodes)
    (hok : fuelOK g (4 * (d + 2) * (g.spec.classes.length + 4) * (specSize g.spec + 2) + 64) d
      (.cls g.spec.start) = true) (v : Val) :
    v ∈ boundedLanguage g d ↔
      (wt g [] (.cls g.spec.start) v = true ∧ v.depth ≤ d ∧ v.erase = v) := by
  refine ⟨C04_bounded_language_sound g hg d v, fun h => ?_⟩
  have := C04_language_complete g hg habs hcl hfc _ d _ [] v hok rfl
    (by intro s hs; simp only [explode, List.mem_singleton] at hs; rw [hs]; exact hstart)
    h.1 h.2.1
  rwa [h.2.2] at this

/-- The fuel of `boundedLanguage` IS enough (so the enumeration is never cut short): under
`grammarWF` and `prodsShort` (every registered production list is at most as long as the class
list — true when no production is listed twice, as `register_type` guarantees).  One depth level
costs at most `2 * specSize + 1 + L * (L + 1)` units (`levelCost`; `L` = number of classes), which
is at most `(L + 4) * (specSize + 2)`. -/
theorem C04_bounded_fuel_adequate (g : Grammar) (hg : grammarWF g = true)
    (hshort : prodsShort g = true) (d n : Nat) :
    fuelOK g (4 * (d + 2) * (g.spec.classes.length + 4) * (specSize g.spec + 2) + 64) d (.cls n)
      = true :=
  boundedFuel_ok g (GWF_of_grammarWF g hg).alts (prodsShort_elim g hshort) d n

/-- Hence `boundedLanguage g d` is EXACTLY the set of well-typed, refinement-satisfying,
metadata-free programs of the start symbol of depth at most `d`, for every finite-choice
well-formed analysed grammar and every `d`. -/
theorem C04_bounded_language_spec (g : Grammar) (hg : grammarWF g = true)
    (habs : altsAbstract g = true) (hcl : ClosedNodes g.spec g.reg) (hfc : fcGrammar g = true)
    (hshort : prodsShort g = true) (hstart : Sym.cls g.spec.start ∈ g.reg.allNodes)
    (d : Nat) (v : Val) :
    v ∈ boundedLanguage g d ↔
      (wt g [] (.cls g.spec.start) v = true ∧ v.depth ≤ d ∧ v.erase = v) :=
  C04_bounded_language_exact g hg habs hcl hfc d hstart
    (C04_bounded_fuel_adequate g hg hshort d g.spec.start) v

/-- the strict finite-choice predicates imply the model's -/
theorem C04_fc_finiteChoice (g : Grammar) (h : fcGrammar g = true) : finiteChoice g = true :=
  fcGrammar_finiteChoice g h

/-! ### 4. Completeness of grow creation: no valid program (without empty lists) is unreachable

FULL STATEMENT (properties.jsonl), false on the code as it stands:

    for a finite-choice, well-formed grammar and every `v` with `wt g [] start v = true` and
    `v.depth ≤ d` there are a fuel and a script `draws` with
    `randomTree g ⟨.grow, d⟩ fuel (scriptSt draws) = .ok v' s'` and `v'.erase = v.erase`.

It fails for programs containing an EMPTY list (`C04_grow_complete_witness`): the grammar analysis
charges a possibly-empty list field the minimum depth of its element type (C05 finding), so at the
depth frontier grow's filter removes a production whose instance with the empty list would fit.
Proved below under the exact extra hypothesis `NoEmptyList v`.

Hypotheses on the analysed grammar (all decidable; `hfix`, `hkeys` are theorems for
`analyse spec`): `grammarWF`, `altsAbstract`, `ClosedNodes`, the distance table solves the
distance equations (`isFixpoint`, C05) over exactly the registered symbols, node-depth mode
(`g.spec.e = 0`).  Exactness of the analysis enters through `C05_dist_sound_partial`:
`dist(production) ≤ depth(subtree) ≤ remaining budget`, so the depth filter keeps the production
of every subtree. -/

private theorem growOK_of (g : Grammar) (hg : grammarWF g = true) (habs : altsAbstract g = true)
    (hcl : ClosedNodes g.spec g.reg) (hfix : isFixpoint g.spec g.reg g.dist = true)
    (hkeys : keys g.dist = g.reg.allNodes) (he : g.spec.e = 0) : GrowOK g := by
  refine ⟨GWF_of_grammarWF g hg, habs, hcl, ?_⟩
  intro ty v hd hne hreg
  have hclosed : Closed g.spec g.reg g.dist := by
    intro s hs s' hs'
    rw [hkeys] at hs ⊢
    exact hcl s hs s' hs'
  exact C05.C05_dist_sound_partial hfix hclosed he (ty := ty) (by rw [hkeys]; exact hreg) hd hne

/-- Every member of the bounded language of ANY type (enumerated with any fuel and budget) that
contains no empty list is produced by grow creation, up to synthesis metadata, under a suitable
script: for every context that leaves room for it and whatever the sibling values are.  The
script is consumed exactly; any fuel from `F` on works. -/
theorem C04_grow_complete_language_partial (g : Grammar) (hg : grammarWF g = true)
    (habs : altsAbstract g = true) (hcl : ClosedNodes g.spec g.reg)
    (hfix : isFixpoint g.spec g.reg g.dist = true) (hkeys : keys g.dist = g.reg.allNodes)
    (he : g.spec.e = 0)
    (D fuelL budget : Nat) (ty : Ty) (v : Val) (hty : tyWF ty = true)
    (hreg : ∀ s ∈ explode ty, s ∈ g.reg.allNodes)
    (hv : v ∈ langTy g fuelL budget ty) (hne : NoEmptyList v = true)
    (ctx : Ctx) (deps : List (String × Val)) (hd : ctx.depth + v.depth ≤ D) :
    ∃ F draws v', (∀ fuel, F ≤ fuel →
        createNode g ⟨.grow, D⟩ fuel ty ctx deps (scriptSt draws) =
          .ok v' { src := .scripted ⟨draws, draws.length⟩ }) ∧ v'.erase = v := by
  obtain ⟨F, hF⟩ := (growP_all g (growOK_of g hg habs hcl hfix hkeys he) D fuelL).1 budget ty v
    hty hreg hv hne ctx hd
  obtain ⟨draws, v', h1, h2⟩ := steer_run hF deps
  exact ⟨F, draws, v', h1, h2⟩

/-- `random_tree`: every program of `boundedLanguage g d` without empty lists is reachable by
grow initialisation at maximum depth `d`. -/
theorem C04_grow_complete_bounded_partial (g : Grammar) (hg : grammarWF g = true)
    (habs : altsAbstract g = true) (hcl : ClosedNodes g.spec g.reg)
    (hfix : isFixpoint g.spec g.reg g.dist = true) (hkeys : keys g.dist = g.reg.allNodes)
    (he : g.spec.e = 0) (hstart : Sym.cls g.spec.start ∈ g.reg.allNodes)
    (d : Nat) (v : Val) (hv : v ∈ boundedLanguage g d) (hne : NoEmptyList v = true) :
    ∃ fuel draws v' s', randomTree g ⟨.grow, d⟩ fuel (scriptSt draws) = .ok v' s' ∧ v'.erase = v := by
  have hdepth := (C04_bounded_language_sound g hg d v hv).2.1
  obtain ⟨F, draws, v', h1, h2⟩ := C04_grow_complete_language_partial g hg habs hcl hfix hkeys he
    d _ d (.cls g.spec.start) v rfl
    (by intro s hs; simp only [explode, List.mem_singleton] at hs; rw [hs]; exact hstart)
    hv hne ⟨0, 0⟩ [] (by simpa using hdepth)
  exact ⟨F, draws, v', _, h1 F (Nat.le_refl _), h2⟩

/-- THE PARTIAL THEOREM.  Finite-choice grammar (`fcGrammar`, type `fcTy`): every well-typed,
refinement-satisfying value `v` of the type that contains no empty list and fits the remaining
depth budget is produced by `create_node` under the grow decider for some script, up to
synthesis metadata. -/
theorem C04_grow_complete_partial (g : Grammar) (hg : grammarWF g = true)
    (habs : altsAbstract g = true) (hcl : ClosedNodes g.spec g.reg) (hfc : fcGrammar g = true)
    (hfix : isFixpoint g.spec g.reg g.dist = true) (hkeys : keys g.dist = g.reg.allNodes)
    (he : g.spec.e = 0)
    (D : Nat) (ty : Ty) (hwf : tyWF ty = true) (hty : fcTy ty = true)
    (hreg : ∀ s ∈ explode ty, s ∈ g.reg.allNodes)
    (v : Val) (deps' : List (String × Val)) (hw : wt g deps' ty v = true)
    (hne : NoEmptyList v = true)
    (ctx : Ctx) (deps : List (String × Val)) (hd : ctx.depth + v.depth ≤ D) :
    ∃ fuel draws v' s', createNode g ⟨.grow, D⟩ fuel ty ctx deps (scriptSt draws) = .ok v' s' ∧
      v'.erase = v.erase := by
  obtain ⟨F0, hF0⟩ := C04_language_fuel_exists g hg v.depth ty
  have hmem := C04_language_complete g hg habs hcl hfc F0 v.depth ty deps' v
    (hF0 F0 (Nat.le_refl _)) hty hreg hw (Nat.le_refl _)
  obtain ⟨F, draws, v', h1, h2⟩ := C04_grow_complete_language_partial g hg habs hcl hfix hkeys he
    D F0 v.depth ty v.erase hwf hreg hmem (by rw [noEmpty_erase]; exact hne) ctx deps
    (by rw [depth_erase]; exact hd)
  exact ⟨F, draws, v', _, h1 F (Nat.le_refl _), h2⟩

/-- EXACTNESS of grow initialisation on the programs without empty lists: such a (metadata-free)
program is reachable at maximum depth `d` — by some fuel, from some state — IFF it is a
well-typed program of the start symbol of depth at most `d`. -/
theorem C04_grow_exact_partial (g : Grammar) (hg : grammarWF g = true)
    (habs : altsAbstract g = true) (hcl : ClosedNodes g.spec g.reg) (hfc : fcGrammar g = true)
    (hfix : isFixpoint g.spec g.reg g.dist = true) (hkeys : keys g.dist = g.reg.allNodes)
    (he : g.spec.e = 0) (hstart : Sym.cls g.spec.start ∈ g.reg.allNodes)
    (d : Nat) (hD : d < INF) (hmin : g.minTreeDepth ≤ d)
    (v : Val) (hne : NoEmptyList v = true) (her : v.erase = v) :
    (∃ fuel s s' v', randomTree g ⟨.grow, d⟩ fuel s = .ok v' s' ∧ v'.erase = v) ↔
      (wt g [] (.cls g.spec.start) v = true ∧ v.depth ≤ d) := by
  have hregs : ∀ s ∈ explode (.cls g.spec.start), s ∈ g.reg.allNodes := by
    intro s hs; simp only [explode, List.mem_singleton] at hs; rw [hs]; exact hstart
  constructor
  · rintro ⟨fuel, s, s', v', hrun, rfl⟩
    obtain ⟨hw, hdep⟩ := C04_grow_sound g d fuel s s' v' hg (fixpoint_consistent g hfix) hD hmin hrun
    obtain ⟨F0, hF0⟩ := C04_language_fuel_exists g hg d (.cls g.spec.start)
    have hmem := C04_language_complete g hg habs hcl hfc F0 d _ [] v'
      (hF0 F0 (Nat.le_refl _)) rfl hregs hw hdep
    have hs := C04_language_sound g hg F0 d _ _ rfl hmem
    exact ⟨hs.1 [], hs.2.1⟩
  · rintro ⟨hw, hdep⟩
    obtain ⟨fuel, draws, v', s', hrun, hev⟩ := C04_grow_complete_partial g hg habs hcl hfc hfix
      hkeys he d (.cls g.spec.start) rfl rfl hregs v [] hw hne ⟨0, 0⟩ [] (by simpa using hdep)
    exact ⟨fuel, scriptSt draws, s', v', hrun, by rw [hev, her]⟩

/-- The statement the correspondence harness checks, direction "no invalid program is reachable":
whatever the depth-limited decider (grow, full, PI-grow, dSGE), the fuel and the state, the
program `random_tree` returns is — metadata erased — a member of `boundedLanguage`. -/
theorem C04_reachable_in_bounded_language (g : Grammar) (hg : grammarWF g = true)
    (habs : altsAbstract g = true) (hcl : ClosedNodes g.spec g.reg) (hfc : fcGrammar g = true)
    (hshort : prodsShort g = true) (hc : distConsistent g = true)
    (hstart : Sym.cls g.spec.start ∈ g.reg.allNodes)
    (dec : Decider) (hk : dec.kind.depthLimited = true) (hD : dec.maxDepth < INF)
    (hv : deciderValid g dec = true) (fuel : Nat) (s s' : SynSt) (v : Val)
    (h : randomTree g dec fuel s = .ok v s') : v.erase ∈ boundedLanguage g dec.maxDepth := by
  obtain ⟨hw, hd⟩ := C04_reachable_in_language_spec g dec fuel s s' v hg hc hk hD hv h
  exact C04_language_complete g hg habs hcl hfc _ dec.maxDepth _ [] v
    (C04_bounded_fuel_adequate g hg hshort dec.maxDepth g.spec.start) rfl
    (by intro x hx; simp only [explode, List.mem_singleton] at hx; rw [hx]; exact hstart) hw hd

/-- ... and both directions for grow on the programs without empty lists: such a program is in
`boundedLanguage g d` IFF grow initialisation at maximum depth `d` can return it (up to
metadata). -/
theorem C04_grow_bounded_language_exact_partial (g : Grammar) (hg : grammarWF g = true)
    (habs : altsAbstract g = true) (hcl : ClosedNodes g.spec g.reg) (hfc : fcGrammar g = true)
    (hshort : prodsShort g = true)
    (hfix : isFixpoint g.spec g.reg g.dist = true) (hkeys : keys g.dist = g.reg.allNodes)
    (he : g.spec.e = 0) (hstart : Sym.cls g.spec.start ∈ g.reg.allNodes)
    (d : Nat) (hD : d < INF) (hmin : g.minTreeDepth ≤ d) (v : Val) (hne : NoEmptyList v = true) :
    v ∈ boundedLanguage g d ↔
      ∃ fuel s s' v', randomTree g ⟨.grow, d⟩ fuel s = .ok v' s' ∧ v'.erase = v := by
  constructor
  · intro hv
    obtain ⟨fuel, draws, v', s', h1, h2⟩ :=
      C04_grow_complete_bounded_partial g hg habs hcl hfix hkeys he hstart d v hv hne
    exact ⟨fuel, _, s', v', h1, h2⟩
  · rintro ⟨fuel, s, s', v', hrun, rfl⟩
    exact C04_reachable_in_bounded_language g hg habs hcl hfc hshort (fixpoint_consistent g hfix)
      hstart ⟨.grow, d⟩ rfl hD (by simpa [deciderValid] using hmin) fuel s s' v' hrun

/-- For the analysed grammar of a specification the table hypotheses are theorems (C05). -/
theorem C04_analyse_table (spec : GrammarSpec) :
    isFixpoint (analyse spec).spec (analyse spec).reg (analyse spec).dist = true ∧
    keys (analyse spec).dist = (analyse spec).reg.allNodes := by
  refine ⟨(C05.C05_analyse_fixpoint spec).2, ?_⟩
  show keys (distIter spec _ _ _) = _
  rw [keys_distIter]
  simp only [keys, List.map_map, Function.comp_def, List.map_id']
  rfl

/-! #### Why `NoEmptyList` is needed: what the depth filter lets through -/

/-- Whatever the depth-limited decider, the fuel and the state: a value created for an abstract
class is a well-typed instance of one of its productions THAT PASSED THE DEPTH FILTER
(`depth + dist(production) ≤ maxDepth`).  So a program whose root production has a reported
distance beyond the remaining budget is unreachable, however shallow the program is. -/
theorem C04_reachable_production_fits (g : Grammar) (hg : grammarWF g = true) (dec : Decider)
    (hk : dec.kind.depthLimited = true) (fuel n : Nat) (prods : List Nat) (ctx : Ctx)
    (deps : List (String × Val)) (s s' : SynSt) (v : Val)
    (ha : g.altsOf n = some prods)
    (h : createNode g dec fuel (.cls n) ctx deps s = .ok v s') :
    ∃ p ∈ prods, ctx.depth + g.distOf (.cls p) ≤ dec.maxDepth ∧ wt g [] (.cls p) v = true := by
  cases fuel with
  | zero => rw [createNode] at h; exact absurd h (throwE_not_ok _ _ _ _)
  | succ fuel =>
    rw [createNode] at h
    split at h
    · exact absurd h (throwE_not_ok _ _ _ _)
    · rw [ha] at h
      simp only at h
      obtain ⟨p, hp, hfit, f, s1, s2, v0, hrun, rfl⟩ :=
        createAbstract_inv g dec hk fuel n prods ctx s s' v h
      refine ⟨p, hp, (fits_iff g dec ctx _).1 hfit, ?_⟩
      rw [wt_setCtx]
      exact C01.C01_create_cls_wt g hg dec f p _ [] s1 s2 v0 hrun

/-- WITNESS.  `A ::= Leaf | Many(xs : Annotated[list[A], ListSizeBetween(0, 1)])` at maximum
depth 1: every hypothesis of `C04_grow_complete_partial` except `NoEmptyList` holds, the program
`Many([])` is in `boundedLanguage` (well-typed, depth 1), and NO fuel and NO state (random
source, genotype) make grow initialisation return it: `Many` is reported at distance 2. -/
theorem C04_grow_complete_witness :
    grammarWF wG = true ∧ altsAbstract wG = true ∧ ClosedNodes wG.spec wG.reg ∧
    fcGrammar wG = true ∧ isFixpoint wG.spec wG.reg wG.dist = true ∧
    keys wG.dist = wG.reg.allNodes ∧ wG.spec.e = 0 ∧ deciderValid wG ⟨.grow, 1⟩ = true ∧
    Val.node 2 0 0 [.list 0 0 []] ∈ boundedLanguage wG 1 ∧
    wt wG [] (.cls 0) (.node 2 0 0 [.list 0 0 []]) = true ∧
    (Val.node 2 0 0 [.list 0 0 []]).depth ≤ 1 ∧
    NoEmptyList (.node 2 0 0 [.list 0 0 []]) = false ∧
    wG.distOf (.cls 2) = 2 ∧
    (∀ fuel s s' v', randomTree wG ⟨.grow, 1⟩ fuel s = .ok v' s' →
      v'.erase ≠ .node 2 0 0 [.list 0 0 []]) := by
  have hwf : grammarWF wG = true := by decide
  have hmem : Val.node 2 0 0 [.list 0 0 []] ∈ boundedLanguage wG 1 := by
    have h : ((boundedLanguage wG 1).any (· == Val.node 2 0 0 [.list 0 0 []])) = true := by
      decide +kernel
    exact mem_of_any_beq _ _ h
  have hs := C04_bounded_language_sound wG hwf 1 _ hmem
  refine ⟨hwf, by decide, by decide, by decide, by decide, by decide, by decide, by decide, hmem,
    hs.1, hs.2.1, by decide, by decide, ?_⟩
  intro fuel s s' v' hrun hev
  obtain ⟨p, hp, hfit, hw⟩ := C04_reachable_production_fits wG hwf ⟨.grow, 1⟩ rfl fuel 0 [1, 2]
    ⟨0, 0⟩ [] s s' v' (by decide) hrun
  have hp1 : p = 1 := by
    simp only [List.mem_cons, List.not_mem_nil, or_false] at hp
    rcases hp with rfl | rfl
    · rfl
    · have : wG.distOf (.cls 2) = 2 := by decide
      rw [this] at hfit; simp at hfit
  subst hp1
  cases v' <;> try (simp [wt] at hw; done)
  rename_i c d e args
  rw [Val.erase, Val.node.injEq] at hev
  obtain ⟨rfl, _⟩ := hev
  rw [wt] at hw
  simp only [Bool.and_eq_true] at hw
  have : isProdOf wG (wG.spec.classes.length + 1) 1 2 = false := by decide
  rw [this] at hw
  exact absurd hw.1.2 (by decide)

/-! ### 5. Full creation: the frontier preference -/

/-- FullDecider: as long as some recursive alternative fits STRICTLY, every alternative it can
return is recursive and fits strictly, or sits exactly one level above the frontier
(`dist = maxDepth - depth - 1`); a non-recursive alternative that merely fits is never chosen. -/
theorem C04_full_frontier_partial (g : Grammar) (dec : Decider) (hk : dec.kind = .full)
    (key : Ty) (alts : List Ty) (ctx : Ctx) (s s' : SynSt) (t : Ty)
    (hd : ctx.depth ≤ dec.maxDepth)
    (hrec : ∃ x ∈ alts, g.isRecTy x = true ∧ fitsStrict g dec ctx x = true)
    (h : chooseProd g dec key alts ctx s = .ok t s') :
    t ∈ alts ∧ ((g.isRecTy t = true ∧ fitsStrict g dec ctx t = true) ∨
      (g.distOf t : Int) = (dec.maxDepth : Int) - ctx.depth - 1) := by
  unfold chooseProd at h
  split at h
  · exact absurd h (throwE_not_ok _ _ _ _)
  rw [hk] at h
  simp only at h
  have hmem := pick_mem _ _ _ _ h
  unfold fullCands at hmem
  simp only [hd, if_true] at hmem
  obtain ⟨x, hx, hx1, hx2⟩ := hrec
  have hne : (alts.filter fun y => (g.isRecTy y && fitsStrict g dec ctx y)
      || decide ((g.distOf y : Int) = (dec.maxDepth : Int) - ctx.depth - 1)).isEmpty = false := by
    rw [List.isEmpty_eq_false_iff]
    intro hnil
    have : x ∈ alts.filter fun y => (g.isRecTy y && fitsStrict g dec ctx y)
        || decide ((g.distOf y : Int) = (dec.maxDepth : Int) - ctx.depth - 1) :=
      List.mem_filter.2 ⟨hx, by simp [hx1, hx2]⟩
    rw [hnil] at this; cases this
  rw [hne] at hmem
  simp only [Bool.false_eq_true, if_false, List.mem_filter, Bool.or_eq_true, Bool.and_eq_true,
    decide_eq_true_eq] at hmem
  exact hmem

/-! ### Non-vacuity: the hypotheses hold on a concrete recursive grammar with a bounded list, a
union, a tuple and refined ints / names; the enumerator's fuel is enough there; a script reaches a
depth-2 program, and the completeness theorem applies to it -/

example : grammarWF exLG = true ∧ altsAbstract exLG = true ∧ ClosedNodes exLG.spec exLG.reg ∧
    fcGrammar exLG = true ∧ finiteChoice exLG = true ∧
    isFixpoint exLG.spec exLG.reg exLG.dist = true ∧ keys exLG.dist = exLG.reg.allNodes ∧
    exLG.spec.e = 0 ∧ distConsistent exLG = true ∧ Sym.cls exLG.spec.start ∈ exLG.reg.allNodes ∧
    exLG.minTreeDepth = 1 ∧ prodsShort exLG = true := by decide
-- the fuel of `boundedLanguage` is enough at depths 1 and 2: `C04_bounded_language_exact` applies
example : fuelOK exLG (4 * (1 + 2) * (exLG.spec.classes.length + 4) * (specSize exLG.spec + 2) + 64) 1
    (.cls exLG.spec.start) = true := by decide +kernel
example : fuelOK exLG (4 * (2 + 2) * (exLG.spec.classes.length + 4) * (specSize exLG.spec + 2) + 64) 2
    (.cls exLG.spec.start) = true := by decide +kernel
example : (boundedLanguage exLG 1).length = 6 ∧ (boundedLanguage exLG 2).length = 150 := by
  decide +kernel
-- the soundness theorems apply: creation succeeds (grow, full, PI-grow)
example : erasedResultIs (randomTree exLG ⟨.grow, 2⟩ 30 (scriptSt [2, 1, 0, 0, 1, 0, 1, 0])) exLV = true := by
  decide +kernel
example : resIsOk (randomTree exLG ⟨.full, 2⟩ 30 (scriptSt [2, 1, 0, 0, 1, 0, 1, 0])) = true ∧
    resIsOk (randomTree exLG ⟨.pigrow, 2⟩ 30 (scriptSt [2, 1, 0, 0, 1, 0, 1, 0])) = true := by
  decide +kernel
-- `exLV` is in the bounded language, has no empty list: it is reachable (by the theorem)
example : ∃ fuel draws v' s', randomTree exLG ⟨.grow, 2⟩ fuel (scriptSt draws) = .ok v' s' ∧
    v'.erase = exLV :=
  C04_grow_complete_bounded_partial exLG (by decide) (by decide) (by decide) (by decide) (by decide)
    (by decide) (by decide) 2 exLV (mem_of_any_beq _ _ (by decide +kernel)) (by decide)
-- the witness grammar: same hypotheses, but `Many([])` has an empty list
example : NoEmptyList (.node 2 0 0 [.list 0 0 []]) = false ∧ NoEmptyList exLV = true := by decide

end GEVerif.C04
