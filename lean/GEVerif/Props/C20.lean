/-
  C20 — The CSV search log is faithful and is a valid prefix at every interruption point.

  Model: `GEVerif/Model/Csv.lean` (the recorder as repaired: per-closure binding of the loop
  variable in `CSVSearchRecorder.__init__` and in `SimpleGP.build_recorder`).  The theorems are
  stated for every number of objectives, every `fields` / `extra_fields` configuration, both
  recording modes, every history of registrations and every behaviour of the adversary that
  moves buffered bytes to disk.  User callbacks are uninterpreted (see the model), so
  "computed by its own callback from that individual's program" is literal.
-/
import GEVerif.Model.Csv

namespace GEVerif.C20
open GEVerif.Csv

/-! ## Dict lemmas -/

section Dict
variable {κ α : Type} [DecidableEq κ]

private theorem dictGet_dictSet (k k' : κ) (v : α) (d : List (κ × α)) :
    dictGet k' (dictSet k v d) = if k = k' then some v else dictGet k' d := by
  induction d with
  | nil => simp [dictSet, dictGet]
  | cons p rest ih =>
    obtain ⟨a, w⟩ := p
    simp only [dictSet]
    by_cases h : a = k
    · subst h
      simp only [if_true, dictGet]
      by_cases h2 : a = k' <;> simp [h2]
    · simp only [h, if_false, dictGet, ih]
      by_cases h2 : a = k'
      · subst h2
        have : ¬ k = a := fun e => h e.symm
        simp [this]
      · simp [h2]

private theorem keys_dictSet (k : κ) (v : α) (d : List (κ × α)) :
    keys (dictSet k v d) = if k ∈ keys d then keys d else keys d ++ [k] := by
  induction d with
  | nil => simp [dictSet, keys]
  | cons p rest ih =>
    obtain ⟨a, w⟩ := p
    simp only [dictSet]
    by_cases h : a = k
    · subst h
      simp [keys]
    · have hk : ¬ k = a := fun e => h e.symm
      simp only [h, if_false]
      simp only [keys, List.map_cons, List.mem_cons, hk, false_or] at ih ⊢
      rw [ih]
      split <;> simp_all

private theorem dictGet_dictUpdate (k : κ) (d u : List (κ × α)) :
    dictGet k (dictUpdate d u) = match lastGet k u with
      | some w => some w
      | none => dictGet k d := by
  induction u generalizing d with
  | nil => simp [dictUpdate, lastGet]
  | cons p rest ih =>
    obtain ⟨a, w⟩ := p
    have : dictUpdate d ((a, w) :: rest) = dictUpdate (dictSet a w d) rest := rfl
    rw [this, ih, dictGet_dictSet]
    simp only [lastGet]
    cases lastGet k rest with
    | some x => simp
    | none => by_cases h : a = k <;> simp [h]

private theorem keys_dictUpdate (d u : List (κ × α)) :
    keys (dictUpdate d u) = u.foldl (fun ns p => if p.1 ∈ ns then ns else ns ++ [p.1]) (keys d) := by
  induction u generalizing d with
  | nil => rfl
  | cons p rest ih =>
    have : dictUpdate d (p :: rest) = dictUpdate (dictSet p.1 p.2 d) rest := rfl
    rw [this, ih, keys_dictSet]
    rfl

private theorem nodup_fold_keys (u : List (κ × α)) (ns : List κ) (h : ns.Nodup) :
    (u.foldl (fun ns p => if p.1 ∈ ns then ns else ns ++ [p.1]) ns).Nodup := by
  induction u generalizing ns with
  | nil => exact h
  | cons p rest ih =>
    simp only [List.foldl_cons]
    apply ih
    split
    · exact h
    · rename_i hn
      refine List.nodup_append.mpr ⟨h, by simp, ?_⟩
      intro a ha b hb e
      simp only [List.mem_singleton] at hb
      subst hb; subst e
      exact hn ha

private theorem lastGet_append_single (k a : κ) (v : α) (l : List (κ × α)) :
    lastGet k (l ++ [(a, v)]) = if a = k then some v else lastGet k l := by
  induction l with
  | nil => simp [lastGet]
  | cons p rest ih =>
    obtain ⟨b, w⟩ := p
    simp only [List.cons_append, lastGet, ih]
    by_cases h : a = k
    · simp [h]
    · simp [h]

private theorem lastGet_map (k : κ) {β : Type} (f : α → β) (l : List (κ × α)) :
    lastGet k (l.map fun p => (p.1, f p.2)) = (lastGet k l).map f := by
  induction l with
  | nil => rfl
  | cons p rest ih =>
    obtain ⟨b, w⟩ := p
    simp only [List.map_cons, lastGet, ih]
    cases lastGet k rest <;> simp <;> split <;> simp

private theorem dictGet_map (k : κ) {β : Type} (f : α → β) (l : List (κ × α)) :
    dictGet k (l.map fun p => (p.1, f p.2)) = (dictGet k l).map f := by
  induction l with
  | nil => rfl
  | cons p rest ih =>
    obtain ⟨b, w⟩ := p
    simp only [List.map_cons, dictGet, ih]
    split <;> simp

end Dict

/-! ## The default field table -/

private theorem lastGet_fitness_range (g : Nat → Extractor) (k : Nat) (name : Name) :
    lastGet name ((List.range k).map fun c => (Name.fitness c, g c)) =
      match name with
      | .fitness c => if c < k then some (g c) else none
      | _ => none := by
  induction k with
  | zero => cases name <;> simp [lastGet]
  | succ k ih =>
    rw [List.range_succ, List.map_append, List.map_singleton, lastGet_append_single, ih]
    cases name with
    | fitness c =>
      by_cases h : k = c
      · subst h; simp
      · have : ¬ Name.fitness k = Name.fitness c := by simpa using h
        simp only [this, if_false]
        by_cases h2 : c < k
        · simp [h2]; omega
        · have : ¬ c < k + 1 := by omega
          simp [h2, this]
    | time => simp
    | pheno => simp
    | custom n => simp

private theorem keys_defaultFields (b : Binding) (k : Nat) :
    keys (defaultFields b k) = [Name.time, Name.pheno] ++ (List.range k).map Name.fitness := by
  unfold defaultFields
  rw [keys_dictUpdate]
  have : ∀ (g : Nat → Extractor) n, ((List.range n).map fun comp => (Name.fitness comp, g comp)).foldl
      (fun ns p => if p.1 ∈ ns then ns else ns ++ [p.1]) [Name.time, Name.pheno]
      = [Name.time, Name.pheno] ++ (List.range n).map Name.fitness := by
    intro g n
    induction n with
    | zero => rfl
    | succ n ih =>
      rw [List.range_succ, List.map_append, List.foldl_append, ih]
      simp
  simpa [keys] using this (fun comp => Extractor.fitness (capture b comp) (k - 1)) k

/-- the cell the (repaired or pinned) default table puts under each column name -/
private theorem colCell_defaultFields (b : Binding) (k : Nat) (i : Ind) (name : Name) :
    (dictGet name (defaultFields b k)).map (fun ex => evalEx ex i) =
      match name with
      | .time => some Cell.time
      | .pheno => some (Cell.pheno i.prog)
      | .fitness c => if c < k then some (fitCell i (readCapt (k - 1) (capture b c))) else none
      | .custom _ => none := by
  unfold defaultFields
  rw [dictGet_dictUpdate, lastGet_fitness_range]
  cases name with
  | time => simp [dictGet, evalEx]
  | pheno => simp [dictGet, evalEx]
  | custom n => simp [dictGet]
  | fitness c =>
    by_cases h : c < k
    · simp [h, evalEx]
    · simp [h, dictGet]

/-! ## One column per configured field -/

/-- The header is exactly the configured column list: the user's `fields` (or `Execution Time`,
`Phenotype`, `Fitness0 … Fitness(k-1)`), then every extra field whose name is new — for every
number of objectives and every configuration; and it never repeats a name. -/
theorem C20_header_columns (b : Binding) (k : Nat) (fields : Option (List (Name × Nat)))
    (extras : List (Name × Nat)) (onlyBest : Bool)
    (hf : ∀ fs, fields = some fs → (keys fs).Nodup) :
    header (buildFields b (recorderConfig k fields extras onlyBest)) = specColumns k fields extras ∧
    (header (buildFields b (recorderConfig k fields extras onlyBest))).Nodup := by
  have hfold : ∀ (ns : List Name),
      (userTable extras).foldl (fun ns p => if p.1 ∈ ns then ns else ns ++ [p.1]) ns =
      extras.foldl (fun ns p => if p.1 ∈ ns then ns else ns ++ [p.1]) ns := by
    intro ns
    unfold userTable
    rw [List.foldl_map]
  have hndr : ([Name.time, Name.pheno] ++ (List.range k).map Name.fitness).Nodup := by
    refine List.nodup_append.mpr ⟨by simp, ?_, by simp⟩
    exact List.Pairwise.map Name.fitness (fun a b h => by simpa using h) (List.nodup_range (n := k))
  unfold header buildFields specColumns
  rw [keys_dictUpdate]
  cases fields with
  | none =>
    simp only [recorderConfig, Option.map_none]
    rw [keys_defaultFields, hfold]
    exact ⟨rfl, nodup_fold_keys _ _ hndr⟩
  | some fs =>
    simp only [recorderConfig, Option.map_some]
    have hk : keys (userTable fs) = keys fs := by simp [userTable, keys]
    rw [hk, hfold]
    exact ⟨rfl, nodup_fold_keys _ _ (hf fs rfl)⟩

/-- Header and rows are aligned: the cell at the position of column `name` is the cell computed
by the extractor registered under `name`, and every row has one cell per column. -/
theorem C20_row_aligned (t : Table) (i : Ind) (hnd : (header t).Nodup) :
    (rowOf t i).length = (header t).length ∧
    ∀ (j : Nat) (name : Name), (header t)[j]? = some name → (rowOf t i)[j]? = colCell t i name := by
  constructor
  · simp [rowOf, header, keys]
  · induction t with
    | nil => intro j name h; simp [header, keys] at h
    | cons p rest ih =>
      obtain ⟨a, ex⟩ := p
      intro j name h
      have hnd' : (header rest).Nodup ∧ a ∉ header rest := by
        simp only [header, keys, List.map_cons, List.nodup_cons] at hnd ⊢
        exact ⟨hnd.2, hnd.1⟩
      cases j with
      | zero =>
        simp only [header, keys, List.map_cons, List.getElem?_cons_zero, Option.some.injEq] at h
        subst h
        simp [rowOf, colCell, dictGet]
      | succ j =>
        have h' : (header rest)[j]? = some name := by simpa [header, keys] using h
        have hne : ¬ a = name := by
          intro e; subst e
          exact hnd'.2 (List.mem_of_getElem? (l := header rest) h')
        have := ih hnd'.1 j name h'
        simp only [rowOf, colCell, dictGet, hne, if_false, List.map_cons, List.getElem?_cons_succ] at this ⊢
        exact this

/-! ## Faithful columns -/

/-- **columns_faithful (CSVSearchRecorder).**  For every number of objectives `k`, every user
`fields` dict, every `extra_fields` dict, and every individual: the cell written under each column
name is the one the specification prescribes — `Fitness c` holds component `c` of THAT individual
(for every `c < k`), `Phenotype` its program, each user / extra field the value of ITS OWN callback
on that individual (an extra field that reuses a name replaces that column) — and there is no
column for any other name. -/
theorem C20_columns_faithful (k : Nat) (fields : Option (List (Name × Nat)))
    (extras : List (Name × Nat)) (onlyBest : Bool) (i : Ind) (name : Name) :
    colCell (buildFields .perClosure (recorderConfig k fields extras onlyBest)) i name =
      specCell k fields extras (fun cb i => Cell.user cb i.id) (fun cb i => Cell.user cb i.id) name i := by
  unfold colCell buildFields specCell
  rw [dictGet_dictUpdate]
  simp only [recorderConfig, userTable]
  rw [lastGet_map]
  cases hl : lastGet name extras with
  | some cb => simp [evalEx]
  | none =>
    simp only [Option.map_none]
    cases fields with
    | some fs =>
      simp only [Option.map_some, userTable]
      rw [dictGet_map]
      cases dictGet name fs <;> simp [evalEx]
    | none =>
      simp only [Option.map_none]
      rw [colCell_defaultFields]
      cases name <;> simp [capture, readCapt]

/-- The k-th fitness column holds the k-th component of that individual (default fields, the
name not reused by an extra field): the statement of the property in its own words. -/
theorem C20_fitness_column_kth (k : Nat) (extras : List (Name × Nat)) (onlyBest : Bool)
    (i : Ind) (c : Nat) (v : Int) (hc : c < k) (hv : i.comps[c]? = some v)
    (hfree : lastGet (Name.fitness c) extras = none) :
    let t := buildFields .perClosure (recorderConfig k none extras onlyBest)
    (header t)[2 + c]? = some (Name.fitness c) ∧ (rowOf t i)[2 + c]? = some (Cell.fit v) := by
  intro t
  obtain ⟨hh, hnd⟩ := C20_header_columns .perClosure k none extras onlyBest (by simp)
  have hpos : (header t)[2 + c]? = some (Name.fitness c) := by
    show (header (buildFields .perClosure (recorderConfig k none extras onlyBest)))[2 + c]? = _
    rw [hh]
    unfold specColumns
    simp only
    -- folding extras only appends, so position 2 + c of the base is untouched
    have hfold : ∀ (u : List (Name × Nat)) (ns : List Name) (j : Nat) (x : Name), ns[j]? = some x →
        (u.foldl (fun ns p => if p.1 ∈ ns then ns else ns ++ [p.1]) ns)[j]? = some x := by
      intro u
      induction u with
      | nil => intro ns j x h; exact h
      | cons p rest ih =>
        intro ns j x h
        simp only [List.foldl_cons]
        apply ih
        split
        · exact h
        · have hj : j < ns.length := by
            rcases Nat.lt_or_ge j ns.length with h1 | h1
            · exact h1
            · rw [List.getElem?_eq_none h1] at h; cases h
          rw [List.getElem?_append_left hj]; exact h
    apply hfold
    have : 2 + c = [Name.time, Name.pheno].length + c := rfl
    rw [this, List.getElem?_append_right (by simp)]
    simp [hc]
  refine ⟨hpos, ?_⟩
  rw [(C20_row_aligned t i hnd).2 (2 + c) (Name.fitness c) hpos]
  show colCell (buildFields .perClosure (recorderConfig k none extras onlyBest)) i _ = _
  rw [C20_columns_faithful]
  simp [specCell, hfree, hc, fitCell, hv]

/-! ### SimpleGP's extra-field wrappers -/

private theorem lastGet_simpleGPExtrasGo (final : Nat) (i : Ind) (name : Name)
    (l : List (Name × Nat)) (pre : List Nat) :
    (lastGet name (simpleGPExtrasGo .perClosure final (pre ++ l.map (·.2)) pre.length l)).map
        (fun ex => evalEx ex i) =
      (lastGet name l).map (fun cb => Cell.extra cb i.prog) := by
  induction l generalizing pre with
  | nil => rfl
  | cons p rest ih =>
    obtain ⟨n, cb⟩ := p
    have hcbs : pre ++ ((n, cb) :: rest).map (·.2) = (pre ++ [cb]) ++ rest.map (·.2) := by simp
    have hlen : pre.length + 1 = (pre ++ [cb]).length := by simp
    simp only [simpleGPExtrasGo, lastGet]
    rw [hcbs, hlen]
    have ih' := ih (pre ++ [cb])
    cases h1 : lastGet name (simpleGPExtrasGo .perClosure final (pre ++ [cb] ++ rest.map (·.2)) (pre ++ [cb]).length rest) with
    | some w =>
      rw [h1] at ih'
      cases h2 : lastGet name rest with
      | some w' => rw [h2] at ih'; simpa using ih'
      | none => rw [h2] at ih'; simp at ih'
    | none =>
      rw [h1] at ih'
      cases h2 : lastGet name rest with
      | some w' => rw [h2] at ih'; simp at ih'
      | none =>
        by_cases hn : n = name
        · simp [hn, evalEx, capture, readCapt]
        · simp [hn]

/-- **columns_faithful (SimpleGP).**  The recorder `SimpleGP.build_recorder` constructs from the
user's `csv_extra_fields` puts under every extra column the value of THAT column's own callback
applied to that individual's program, and leaves the default columns as specified — for any number
(≥ 0) of extra fields and objectives. -/
theorem C20_simplegp_columns_faithful (k : Nat) (csvExtra : List (Name × Nat)) (onlyBest : Bool)
    (i : Ind) (name : Name) :
    colCell (buildFields .perClosure (simpleGPConfig .perClosure k csvExtra onlyBest)) i name =
      specCell k none csvExtra (fun cb i => Cell.user cb i.id) (fun cb i => Cell.extra cb i.prog) name i := by
  unfold colCell buildFields specCell
  rw [dictGet_dictUpdate]
  simp only [simpleGPConfig, simpleGPExtras]
  have h := lastGet_simpleGPExtrasGo (csvExtra.length - 1) i name csvExtra []
  simp only [List.nil_append, List.length_nil] at h
  cases hl : lastGet name (simpleGPExtrasGo .perClosure (csvExtra.length - 1) (csvExtra.map (·.2)) 0 csvExtra) with
  | some ex =>
    rw [hl] at h
    cases h2 : lastGet name csvExtra with
    | some cb => rw [h2] at h; simpa using h
    | none => rw [h2] at h; simp at h
  | none =>
    rw [hl] at h
    cases h2 : lastGet name csvExtra with
    | some cb => rw [h2] at h; simp at h
    | none =>
      simp only
      rw [colCell_defaultFields]
      cases name <;> simp [capture, readCapt]

/-! ## The file: complete rows only, at every kill point -/

private theorem splitEol_line (l : List Sym) (rest : List Sym) (hl : ∀ s ∈ l, s ≠ Sym.eol) :
    splitEol (l ++ Sym.eol :: rest) = (l :: (splitEol rest).1, (splitEol rest).2) := by
  induction l with
  | nil => simp [splitEol]
  | cons s l ih =>
    have hs : s ≠ Sym.eol := hl s (by simp)
    have ih' := ih (fun x hx => hl x (by simp [hx]))
    cases s with
    | eol => exact absurd rfl hs
    | name n => simp [splitEol, ih']
    | cell c => simp [splitEol, ih']

private theorem splitEol_rows (t : Table) (is : List Ind) :
    splitEol (is.flatMap fun i => renderRow (rowOf t i)) =
      (is.map fun i => (rowOf t i).map Sym.cell, []) := by
  induction is with
  | nil => rfl
  | cons i rest ih =>
    simp only [List.flatMap_cons, List.map_cons]
    unfold renderRow at ih ⊢
    rw [List.append_assoc, List.singleton_append, splitEol_line _ _ (by simp), ih]

/-- The complete log parses into the header line followed by one COMPLETE line per recorded
individual, with nothing left over. -/
theorem C20_full_log_complete_rows (t : Table) (is : List Ind) :
    splitEol (fullLog t is) =
      ((header t).map Sym.name :: is.map (fun i => (rowOf t i).map Sym.cell), []) := by
  unfold fullLog renderHeader
  rw [List.append_assoc, List.singleton_append, splitEol_line _ _ (by simp), splitEol_rows]

private theorem fullLog_snoc (t : Table) (is : List Ind) (i : Ind) :
    fullLog t (is ++ [i]) = fullLog t is ++ renderRow (rowOf t i) := by
  simp [fullLog, List.flatMap_append]

/-- the recorder's invariant between two registrations -/
private def Inv (t : Table) (ob : Bool) (is : List Ind) (r : Recorder) : Prop :=
  r.table = t ∧ r.onlyBest = ob ∧ r.file.buffer = [] ∧ r.file.disk = fullLog t is

private theorem inv_step (t : Table) (ob : Bool) (is : List Ind) (r : Recorder) (e : Ev)
    (h : Inv t ob is r) : Inv t ob (is ++ recorded ob [e]) (r.step e) := by
  obtain ⟨ht, ho, hb, hd⟩ := h
  cases e with
  | spill k =>
    simp only [Recorder.step, recorded, List.append_nil]
    exact ⟨ht, ho, by simp [File.spill, hb], by simp [File.spill, hb, hd]⟩
  | reg adv i best =>
    simp only [Recorder.step, Recorder.register, recorded, ho]
    cases hrec : records ob best with
    | false => simpa using ⟨ht, ho, hb, hd⟩
    | true =>
      simp only [if_true]
      refine ⟨ht, ho, rfl, ?_⟩
      simp only [Recorder.registerWrite, File.flush, File.spill, File.write, hb, List.nil_append,
        List.append_assoc, List.take_append_drop, hd, ht]
      exact (fullLog_snoc t is i).symm

private theorem recorded_append (ob : Bool) (e1 e2 : List Ev) :
    recorded ob (e1 ++ e2) = recorded ob e1 ++ recorded ob e2 := by
  induction e1 with
  | nil => rfl
  | cons e rest ih =>
    cases e with
    | spill k => simpa [recorded] using ih
    | reg adv i best =>
      simp only [List.cons_append, recorded]
      split <;> simp [ih]

private theorem inv_run (t : Table) (ob : Bool) (evs : List Ev) (is : List Ind) (r : Recorder)
    (h : Inv t ob is r) : Inv t ob (is ++ recorded ob evs) (r.run evs) := by
  induction evs generalizing is r with
  | nil => simpa [Recorder.run, recorded] using h
  | cons e rest ih =>
    have h1 := inv_step t ob is r e h
    have h2 := ih _ _ h1
    have : recorded ob (e :: rest) = recorded ob [e] ++ recorded ob rest :=
      recorded_append ob [e] rest
    rw [this, ← List.append_assoc]
    exact h2

private theorem inv_new (b : Binding) (cfg : Config) (adv : Nat) :
    Inv (buildFields b cfg) cfg.onlyBest [] (Recorder.new b cfg adv) := by
  refine ⟨rfl, rfl, rfl, ?_⟩
  simp [Recorder.new, File.flush, File.spill, File.write, fullLog, List.take_append_drop]

/-- **prefix_valid.**  For every configuration, every history of registrations (any flags, either
mode), and every behaviour of the adversary (spills inside and between registrations): after
construction and after every `register` the buffer is empty and the disk holds exactly the header
followed by the complete rows of the individuals recorded so far. -/
theorem C20_prefix_valid (b : Binding) (cfg : Config) (adv : Nat) (evs : List Ev) :
    let r := (Recorder.new b cfg adv).run evs
    r.file.buffer = [] ∧
    r.file.disk = fullLog (buildFields b cfg) (recorded cfg.onlyBest evs) := by
  have := inv_run _ _ evs [] _ (inv_new b cfg adv)
  exact ⟨this.2.2.1, by simpa using this.2.2.2⟩

/-- … hence what a kill between two registrations leaves on disk parses into complete lines
only: the header and one row per recorded individual, no partial row. -/
theorem C20_disk_complete_rows (b : Binding) (cfg : Config) (adv : Nat) (evs : List Ev) :
    splitEol ((Recorder.new b cfg adv).run evs).file.disk =
      ((header (buildFields b cfg)).map Sym.name ::
        (recorded cfg.onlyBest evs).map (fun i => (rowOf (buildFields b cfg) i).map Sym.cell), []) := by
  rw [(C20_prefix_valid b cfg adv evs).2, C20_full_log_complete_rows]

/-- … and it is a prefix of the log of any continuation of the run (in particular of the full
log): rows already on disk are never rewritten. -/
theorem C20_kill_point_prefix (b : Binding) (cfg : Config) (adv : Nat) (evs more : List Ev) :
    ((Recorder.new b cfg adv).run evs).file.disk <+:
      ((Recorder.new b cfg adv).run (evs ++ more)).file.disk := by
  rw [(C20_prefix_valid b cfg adv evs).2, (C20_prefix_valid b cfg adv (evs ++ more)).2,
    recorded_append]
  unfold fullLog
  rw [List.flatMap_append, ← List.append_assoc]
  exact List.prefix_append _ _

/-- A kill INSIDE a registration (after `writerow`, before `flush`, the adversary having moved
any `adv` buffered bytes to disk) still leaves a byte-prefix of the log: the earlier complete rows
plus a prefix of the new row; nothing is lost (`disk ++ buffer` is the log including the new row). -/
theorem C20_kill_inside_register (b : Binding) (cfg : Config) (adv0 adv : Nat) (evs : List Ev) (i : Ind) :
    let r := (Recorder.new b cfg adv0).run evs
    let m := r.registerWrite adv i
    let full := fullLog (buildFields b cfg) (recorded cfg.onlyBest evs ++ [i])
    m.file.disk ++ m.file.buffer = full ∧ m.file.disk <+: full ∧
    r.file.disk <+: m.file.disk := by
  intro r m full
  have hinv := inv_run _ _ evs [] _ (inv_new b cfg adv0)
  obtain ⟨ht, _, hb, hd⟩ := hinv
  simp only [List.nil_append] at hd
  have hm : m.file.disk ++ m.file.buffer = full := by
    show (r.registerWrite adv i).file.disk ++ (r.registerWrite adv i).file.buffer = _
    simp only [Recorder.registerWrite, File.spill, File.write, List.append_assoc,
      List.take_append_drop]
    rw [hb, List.nil_append, hd, ht]
    exact (fullLog_snoc _ _ i).symm
  refine ⟨hm, ⟨m.file.buffer, hm⟩, ?_⟩
  show r.file.disk <+: (r.registerWrite adv i).file.disk
  simp only [Recorder.registerWrite, File.spill, File.write]
  exact List.prefix_append _ _

/-! ## Row counts -/

private theorem recorded_all (evs : List Ev) :
    (recorded false evs).length = (evs.filter fun e => match e with | .reg .. => true | .spill _ => false).length := by
  induction evs with
  | nil => rfl
  | cons e rest ih =>
    cases e with
    | spill k => simpa [recorded] using ih
    | reg adv i best => simp [recorded, records, ih]

/-- **rows_count.**  The log on disk has exactly one data row per registration when all
individuals are recorded, and exactly one per registration flagged `is_best` in only-best mode
(data rows = complete lines after the header). -/
theorem C20_rows_count (b : Binding) (cfg : Config) (adv : Nat) (evs : List Ev) :
    (splitEol ((Recorder.new b cfg adv).run evs).file.disk).1.length =
      1 + (recorded cfg.onlyBest evs).length ∧
    (recorded false evs).length =
      (evs.filter fun e => match e with | .reg .. => true | .spill _ => false).length ∧
    (recorded true evs).length =
      (evs.filter fun e => match e with | .reg _ _ best => best | .spill _ => false).length := by
  refine ⟨?_, recorded_all evs, ?_⟩
  · rw [C20_disk_complete_rows]; simp; omega
  · induction evs with
    | nil => rfl
    | cons e rest ih =>
      cases e with
      | spill k => simpa [recorded] using ih
      | reg adv i best => cases best <;> simp [recorded, records, ih]

private theorem trackFlags_some (bst : Int) (as : List Int) (k : Nat) (ak : Int) (hk : as[k]? = some ak) :
    (trackFlags (some bst) as)[k]? = some true ↔
      (bst < ak ∧ ∀ j aj, j < k → as[j]? = some aj → aj < ak) := by
  induction as generalizing bst k with
  | nil => simp at hk
  | cons a rest ih =>
    cases k with
    | zero =>
      simp only [List.getElem?_cons_zero, Option.some.injEq] at hk
      subst hk
      simp only [trackFlags]
      split <;> simp_all
    | succ k =>
      simp only [List.getElem?_cons_succ] at hk
      simp only [trackFlags]
      split
      · rename_i hlt
        simp only [List.getElem?_cons_succ]
        rw [ih a k hk]
        constructor
        · intro ⟨h1, h2⟩
          refine ⟨by omega, ?_⟩
          intro j aj hj hget
          cases j with
          | zero => simp at hget; omega
          | succ j => exact h2 j aj (by omega) (by simpa using hget)
        · intro ⟨h1, h2⟩
          refine ⟨h2 0 a (by omega) (by simp), ?_⟩
          intro j aj hj hget
          exact h2 (j + 1) aj (by omega) (by simpa using hget)
      · rename_i hnlt
        simp only [List.getElem?_cons_succ]
        rw [ih bst k hk]
        constructor
        · intro ⟨h1, h2⟩
          refine ⟨h1, ?_⟩
          intro j aj hj hget
          cases j with
          | zero => simp at hget; omega
          | succ j => exact h2 j aj (by omega) (by simpa using hget)
        · intro ⟨h1, h2⟩
          refine ⟨h1, ?_⟩
          intro j aj hj hget
          exact h2 (j + 1) aj (by omega) (by simpa using hget)

/-- The single-objective tracker flags evaluation `k` as best exactly when it is a STRICT
improvement over everything evaluated before (the first evaluation always is). -/
theorem C20_flag_iff_strict_improvement (as : List Int) (k : Nat) (ak : Int) (hk : as[k]? = some ak) :
    (trackFlags none as)[k]? = some true ↔ ∀ j aj, j < k → as[j]? = some aj → aj < ak := by
  cases as with
  | nil => simp at hk
  | cons a rest =>
    cases k with
    | zero => simp [trackFlags]
    | succ k =>
      simp only [List.getElem?_cons_succ] at hk
      simp only [trackFlags, List.getElem?_cons_succ]
      rw [trackFlags_some a rest k ak hk]
      constructor
      · intro ⟨h1, h2⟩ j aj hj hget
        cases j with
        | zero => simp at hget; omega
        | succ j => exact h2 j aj (by omega) (by simpa using hget)
      · intro h
        exact ⟨h 0 a (by omega) (by simp), fun j aj hj hget => h (j + 1) aj (by omega) (by simpa using hget)⟩

/-- In only-best mode under the single-objective tracker the number of data rows is the number
of strict improvements (`true` flags) of the evaluation history; in record-all mode it is the
number of evaluations. -/
theorem C20_rows_count_tracker (xs : List (Ind × Int)) :
    (recorded true (trackerEvs xs)).length = (trackFlags none (xs.map (·.2))).count true ∧
    (recorded false (trackerEvs xs)).length = xs.length := by
  have hlen : ∀ (o : Option Int) (as : List Int), (trackFlags o as).length = as.length := by
    intro o as
    induction as generalizing o with
    | nil => cases o <;> rfl
    | cons a rest ih =>
      cases o with
      | none => simp [trackFlags, ih]
      | some bst => simp only [trackFlags]; split <;> simp [ih]
  have key : ∀ (xs : List (Ind × Int)) (fs : List Bool),
      (recorded true (List.zipWith (fun x f => Ev.reg 0 x.1 f) xs fs)).length = (fs.take xs.length).count true ∧
      (recorded false (List.zipWith (fun x f => Ev.reg 0 x.1 f) xs fs)).length = min xs.length fs.length := by
    intro xs
    induction xs with
    | nil => intro fs; simp [recorded]
    | cons x rest ih =>
      intro fs
      cases fs with
      | nil => simp [recorded]
      | cons f fs =>
        obtain ⟨h1, h2⟩ := ih fs
        cases f <;> simp [recorded, records, h1, h2] <;> omega
  obtain ⟨h1, h2⟩ := key xs (trackFlags none (xs.map (·.2)))
  unfold trackerEvs
  constructor
  · rw [h1, List.take_of_length_le (by simp [hlen])]
  · rw [h2, hlen]; simp

/-! ## The pinned code (late binding) violates faithfulness: the witness -/

/-- With the loop variable captured by reference (the code as pinned) and three objectives, the
`Fitness0` column of an individual with components `[10, 20, 30]` holds `30`. -/
theorem C20_late_binding_witness :
    colCell (buildFields .late (recorderConfig 3 none [] false)) ⟨0, 0, [10, 20, 30]⟩ (Name.fitness 0)
      = some (Cell.fit 30) ∧
    specCell 3 none [] (fun cb i => Cell.user cb i.id) (fun cb i => Cell.user cb i.id) (Name.fitness 0)
      ⟨0, 0, [10, 20, 30]⟩ = some (Cell.fit 10) := by
  decide

/-- Same for SimpleGP's wrappers as pinned: with two extra fields both columns are computed by
the LAST callback. -/
theorem C20_simplegp_late_binding_witness :
    colCell (buildFields .perClosure (simpleGPConfig .late 1 [(Name.custom 0, 7), (Name.custom 1, 8)] true))
      ⟨0, 5, [1]⟩ (Name.custom 0) = some (Cell.extra 8 5) := by
  decide

/-! ## Non-vacuity -/

-- three objectives, an extra field that reuses the name `Fitness1`, one new extra field
example : header (buildFields .perClosure (recorderConfig 3 none [(Name.fitness 1, 4), (Name.custom 9, 5)] true))
    = [Name.time, Name.pheno, Name.fitness 0, Name.fitness 1, Name.fitness 2, Name.custom 9] := by decide
example : rowOf (buildFields .perClosure (recorderConfig 3 none [(Name.fitness 1, 4), (Name.custom 9, 5)] true))
    ⟨7, 3, [10, 20, 30]⟩
    = [Cell.time, Cell.pheno 3, Cell.fit 10, Cell.user 4 7, Cell.fit 30, Cell.user 5 7] := by decide
-- SimpleGP with two extra fields
example : rowOf (buildFields .perClosure (simpleGPConfig .perClosure 2 [(Name.custom 0, 7), (Name.custom 1, 8)] true))
    ⟨1, 5, [1, 2]⟩ = [Cell.time, Cell.pheno 5, Cell.fit 1, Cell.fit 2, Cell.extra 7 5, Cell.extra 8 5] := by decide
-- a run in only-best mode with an adversary spilling half a row: buffer empty, two data rows
example :
    let cfg := recorderConfig 1 none [] true
    let r := (Recorder.new .perClosure cfg 2).run
      [.reg 1 ⟨0, 0, [5]⟩ true, .spill 3, .reg 0 ⟨1, 1, [4]⟩ false, .reg 2 ⟨2, 2, [9]⟩ true]
    r.file.buffer = [] ∧ (splitEol r.file.disk).1.length = 3 ∧ (splitEol r.file.disk).2 = [] := by decide
-- inside a registration the adversary can put a partial row on disk (so the flush matters)
example :
    let cfg := recorderConfig 1 none [] false
    let m := (Recorder.new .perClosure cfg 0).registerWrite 2 ⟨0, 0, [5]⟩
    (splitEol m.file.disk).2 = [Sym.cell Cell.time, Sym.cell (Cell.pheno 0)] := by decide
example : trackFlags none [3, 3, 5, 4, 7] = [true, false, true, false, true] := by decide

end GEVerif.C20
