/-
  C07 — the genotype → phenotype mapping is a pure function of the genotype.

  GE / SGE (as repaired): the model's mapping takes the grammar, the decider and the genotype and
  nothing else — there is no shared stream it could draw from; what is proved is that the only
  source it runs on is, from the first draw to the last, a cursor over the SAME genes
  (`C07_gene_source_never_leaves_genotype`): mapping never modifies or swaps the genotype.

  Dynamic SGE: the genotype may be extended on demand from the shared stream, and only extended
  (`C07_dsge_extension_monotone`).
-/
import GEVerif.Model.Linear
import GEVerif.Lemmas.SynM
import GEVerif.Lemmas.Genotype

namespace GEVerif.C07
open GEVerif GEVerif.Genotype

/-- One primitive draw on a genotype-backed source leaves a genotype-backed source over the same
genes (only the cursor moves), whether the draw succeeds or raises. -/
theorem C07_draw_keeps_genotype (lo hi : Int) (s : SynSt) (x : GeneSrc) (hs : s.src = .gene x) :
    (∃ y, (rawRandintM lo hi s).state.src = .gene y ∧ y.dna = x.dna) ∧
    (∃ y, (randintM lo hi s).state.src = .gene y ∧ y.dna = x.dna) :=
  ⟨geneKept_stepRel.raw lo hi s x hs, geneKept_stepRel.closed0.randint lo hi s x hs⟩

/-- Through the whole of `create_node` (every decider, every type, ok and error results alike):
if the source is the genotype `x.dna` at the start, it is the genotype `x.dna` at the end.
(`metaFromGenes` is irrelevant: the statement holds for both settings.) -/
theorem C07_gene_source_never_leaves_genotype (g : Grammar) (dec : Decider) (fuel : Nat) (ty : Ty)
    (ctx : Ctx) (deps : List (String × Val)) (s : SynSt) (x : GeneSrc) (hs : s.src = .gene x) :
    ∃ y, (createNode g dec fuel ty ctx deps s).state.src = .gene y ∧ y.dna = x.dna :=
  createNode_geneKept g dec fuel ty ctx deps s x hs

/-- GE mapping: by definition a function of (grammar, decider, fuel, genes, the decider's
`expanding` flag — always `True` in the code, which maps on a fresh copy of the decider) run on
the state whose only random source is the genotype; and at the end of the mapping (program or
exception) that source is still the same genotype: nothing else was ever drawn from. -/
theorem C07_mapGE_deterministic (g : Grammar) (dec : Decider) (fuel : Nat) (dna : List Int)
    (expanding : Bool) :
    mapGE g dec fuel dna expanding =
      createNode g dec fuel (.cls g.spec.start) ⟨0, 0⟩ []
        { src := .gene { dna := dna, index := 0 }, expanding := expanding } ∧
    ∃ y, (mapGE g dec fuel dna expanding).state.src = .gene y ∧ y.dna = dna :=
  ⟨rfl, createNode_geneKept g dec fuel (.cls g.spec.start) ⟨0, 0⟩ []
    { src := .gene { dna := dna, index := 0 }, expanding := expanding } { dna := dna, index := 0 } rfl⟩

/-- SGE mapping: a function of the `$infrastructure` gene list alone — two genotypes that agree
on it map to the same result — and it runs on that gene list only. -/
theorem C07_mapSGE_deterministic (g : Grammar) (dec : Decider) (fuel : Nat) (dna dna' : SGEDna)
    (expanding : Bool) (h : sgeLookup "$infrastructure" dna = sgeLookup "$infrastructure" dna') :
    mapSGE g dec fuel dna expanding = mapSGE g dec fuel dna' expanding ∧
    ∃ y, (mapSGE g dec fuel dna expanding).state.src = .gene y ∧
      y.dna = sgeLookup "$infrastructure" dna := by
  refine ⟨?_, (C07_mapGE_deterministic g dec fuel _ expanding).2⟩
  unfold mapSGE
  rw [h]

/-- Dynamic SGE: mapping only ever EXTENDS the genotype — under every key the old gene list is a
prefix of the new one — whether it returns a program or raises. -/
theorem C07_dsge_extension_monotone (g : Grammar) (maxDepth fuel : Nat) (dna : DSGEDna)
    (shared : Script) (k : Ty) :
    tyLookup k [] dna <+: tyLookup k [] (mapDSGE g maxDepth fuel dna shared).state.dna := by
  unfold mapDSGE
  dsimp only
  split
  · exact List.prefix_refl _
  · exact createNode_dnaGrows g _ fuel _ _ _
      { src := .scripted shared, dna := dna, pos := [], metaFromGenes := true } k

end GEVerif.C07
