/-
  C07 — mapping is a pure function of the genotype (theorems are added below as they are proved).
-/
import GEVerif.Model.Linear

namespace GEVerif.C07
open GEVerif

theorem C07_placeholder : True := trivial

end GEVerif.C07
