/-
  C07 — the genotype → phenotype mapping is a pure function of the genotype.

  GE / SGE (as repaired): the model's mapping takes the grammar, the decider and the genotype and
  nothing else — there is no shared stream it could draw from; what is proved is that the only
  source it runs on is, from the first draw to the last, a cursor over the SAME genes
  (`C07_gene_source_never_leaves_genotype`): mapping never modifies or swaps the genotype.

  Dynamic SGE (as repaired: metahandler draws read the genotype too): the genotype may be
  extended on demand from the shared stream, and only extended (`C07_dsge_extension_monotone`);
  after that extension the mapping is a fixed point: the extended genotype maps to the same
  program, is not extended again, and the shared stream is not touched
  (`C07_dsge_remap_fixed`, `C07_dsge_remap_fixed_err`), for every grammar (refined fields
  included), depth limit, genotype and pair of shared streams.
-/
import GEVerif.Model.Linear
import GEVerif.Lemmas.SynM
import GEVerif.Lemmas.Genotype
import GEVerif.Lemmas.StackMachine

namespace GEVerif.C07
open GEVerif GEVerif.Genotype

/-- One primitive draw on a genotype-backed source leaves a genotype-backed source over the same
genes (only the cursor moves), whether the draw succeeds or raises. -/
theorem C07_draw_keeps_genotype (lo hi : Int) (s : SynSt) (x : GeneSrc) (hs : s.src = .gene x) :
    (∃ y, (rawRandintM lo hi s).state.src = .gene y ∧ y.dna = x.dna) ∧
    (∃ y, (randintM lo hi s).state.src = .gene y ∧ y.dna = x.dna) :=
  ⟨geneKept_stepRel.raw lo hi s x hs, geneKept_stepRel.closed0.randint lo hi s x hs⟩

/-- Through the whole of `create_node` (every decider, every type, ok and error results alike):
if the source is the genotype `x.dna` at the start, it is the genotype `x.dna` at the end.
(`metaFromGenes` is irrelevant: the statement holds for both settings.) -/
theorem C07_gene_source_never_leaves_genotype (g : Grammar) (dec : Decider) (fuel : Nat) (ty : Ty)
    (ctx : Ctx) (deps : List (String × Val)) (s : SynSt) (x : GeneSrc) (hs : s.src = .gene x) :
    ∃ y, (createNode g dec fuel ty ctx deps s).state.src = .gene y ∧ y.dna = x.dna :=
  createNode_geneKept g dec fuel ty ctx deps s x hs

/-- GE mapping: by definition a function of (grammar, decider, fuel, genes, the decider's
`expanding` flag — always `True` in the code, which maps on a fresh copy of the decider) run on
the state whose only random source is the genotype; and at the end of the mapping (program or
exception) that source is still the same genotype: nothing else was ever drawn from. -/
theorem C07_mapGE_deterministic (g : Grammar) (dec : Decider) (fuel : Nat) (dna : List Int)
    (expanding : Bool) :
    mapGE g dec fuel dna expanding =
      createNode g dec fuel (.cls g.spec.start) ⟨0, 0⟩ []
        { src := .gene { dna := dna, index := 0 }, expanding := expanding } ∧
    ∃ y, (mapGE g dec fuel dna expanding).state.src = .gene y ∧ y.dna = dna :=
  ⟨rfl, createNode_geneKept g dec fuel (.cls g.spec.start) ⟨0, 0⟩ []
    { src := .gene { dna := dna, index := 0 }, expanding := expanding } { dna := dna, index := 0 } rfl⟩

/-- SGE mapping: a function of the `$infrastructure` gene list alone — two genotypes that agree
on it map to the same result — and it runs on that gene list only. -/
theorem C07_mapSGE_deterministic (g : Grammar) (dec : Decider) (fuel : Nat) (dna dna' : SGEDna)
    (expanding : Bool) (h : sgeLookup "$infrastructure" dna = sgeLookup "$infrastructure" dna') :
    mapSGE g dec fuel dna expanding = mapSGE g dec fuel dna' expanding ∧
    ∃ y, (mapSGE g dec fuel dna expanding).state.src = .gene y ∧
      y.dna = sgeLookup "$infrastructure" dna := by
  refine ⟨?_, (C07_mapGE_deterministic g dec fuel _ expanding).2⟩
  unfold mapSGE
  rw [h]

/-- Dynamic SGE: mapping only ever EXTENDS the genotype — under every key the old gene list is a
prefix of the new one — whether it returns a program or raises. -/
theorem C07_dsge_extension_monotone (g : Grammar) (maxDepth fuel : Nat) (dna : DSGEDna)
    (shared : Script) (k : Ty) :
    tyLookup k [] dna <+: tyLookup k [] (mapDSGE g maxDepth fuel dna shared).state.dna := by
  unfold mapDSGE
  dsimp only
  split
  · exact List.prefix_refl _
  · exact createNode_dnaGrows g _ fuel _ _ _
      { src := .scripted shared, dna := dna, pos := [], metaFromGenes := true } k

/-- Dynamic SGE, the fixed point: once a mapping has returned a program `v` (having extended the
genotype to `s1.dna`), mapping the EXTENDED genotype again — with any shared stream `shared'`
in any state — returns the same program, leaves the genotype exactly as it is, and does not
draw from (or advance) the shared stream. -/
theorem C07_dsge_remap_fixed (g : Grammar) (maxDepth fuel : Nat) (dna : DSGEDna)
    (shared shared' : Script) (v : Val) (s1 : SynSt)
    (h : mapDSGE g maxDepth fuel dna shared = .ok v s1) :
    ∃ s2, mapDSGE g maxDepth fuel s1.dna shared' = .ok v s2 ∧ s2.dna = s1.dna ∧
      s2.src = .scripted shared' := by
  unfold mapDSGE at h ⊢
  dsimp only at h ⊢
  split at h
  · cases h
  · rename_i hv
    rw [if_neg hv]
    obtain ⟨_, _, h3⟩ := createNode_replay g { kind := .dsge, maxDepth := maxDepth } rfl fuel
      (.cls g.spec.start) ⟨0, 0⟩ []
      { src := .scripted shared, dna := dna, pos := [], metaFromGenes := true } rfl
    rw [h] at h3
    obtain ⟨h1, _, h4, h5, _⟩ := h3
      { src := .scripted shared', dna := s1.dna, pos := [], metaFromGenes := true } rfl rfl
      (KeyPrefix.refl _)
    generalize createNode g { kind := .dsge, maxDepth := maxDepth } fuel (.cls g.spec.start) ⟨0, 0⟩ []
      { src := .scripted shared', dna := s1.dna, pos := [], metaFromGenes := true } = r at h1 h4 h5
    cases r with
    | err e s2 => exact h1.elim
    | ok v' s2 =>
      have hv' : v = v' := h1
      subst hv'
      exact ⟨s2, rfl, h4, h5⟩

/-- The same for a mapping that raised: the extended genotype raises the same exception again,
unchanged and without touching the shared stream. -/
theorem C07_dsge_remap_fixed_err (g : Grammar) (maxDepth fuel : Nat) (dna : DSGEDna)
    (shared shared' : Script) (e : Err) (s1 : SynSt)
    (h : mapDSGE g maxDepth fuel dna shared = .err e s1) :
    ∃ s2, mapDSGE g maxDepth fuel s1.dna shared' = .err e s2 ∧ s2.dna = s1.dna ∧
      s2.src = .scripted shared' := by
  unfold mapDSGE at h ⊢
  dsimp only at h ⊢
  split at h
  · rename_i hv
    rw [if_pos hv]
    cases h
    exact ⟨_, rfl, rfl, rfl⟩
  · rename_i hv
    rw [if_neg hv]
    obtain ⟨_, _, h3⟩ := createNode_replay g { kind := .dsge, maxDepth := maxDepth } rfl fuel
      (.cls g.spec.start) ⟨0, 0⟩ []
      { src := .scripted shared, dna := dna, pos := [], metaFromGenes := true } rfl
    rw [h] at h3
    obtain ⟨h1, _, h4, h5, _⟩ := h3
      { src := .scripted shared', dna := s1.dna, pos := [], metaFromGenes := true } rfl rfl
      (KeyPrefix.refl _)
    generalize createNode g { kind := .dsge, maxDepth := maxDepth } fuel (.cls g.spec.start) ⟨0, 0⟩ []
      { src := .scripted shared', dna := s1.dna, pos := [], metaFromGenes := true } = r at h1 h4 h5
    cases r with
    | ok v' s2 => exact h1.elim
    | err e' s2 =>
      have he : e = e' := h1
      subst he
      exact ⟨s2, rfl, h4, h5⟩

/-! ### Non-vacuity -/

/-- GE: a mapping that really reads genes; the source at the end is the genotype, cursor moved -/
example : mapGE (analyse witnessSpec) witnessDec 20 [5, 1, 4, 6, 8] true =
    .ok witnessP1 { src := .gene { dna := [5, 1, 4, 6, 8], index := 3 } } := by rfl

/-- dynamic SGE: the empty genotype is extended with 5 genes drawn from the shared stream … -/
example : (match mapDSGE (analyse witnessSpec) 3 20 [] { draws := [1, 1, 0, 0, 0] } with
    | .ok v s => v == witnessP2 && s.dna == [(.cls 0, [1, 1, 0, 0, 0])] &&
        (match s.src with | .scripted sh => sh.pos == 5 | _ => false)
    | _ => false) = true := by decide +kernel

/-- … and the extended genotype maps to the same program, unchanged, with another shared stream
left at position 0 -/
example : (match mapDSGE (analyse witnessSpec) 3 20 [(.cls 0, [1, 1, 0, 0, 0])] { draws := [7, 7, 7] } with
    | .ok v s => v == witnessP2 && s.dna == [(.cls 0, [1, 1, 0, 0, 0])] &&
        (match s.src with | .scripted sh => sh.pos == 0 | _ => false)
    | _ => false) = true := by decide +kernel

/-! ### The stack machine (`StackBasedGGGPRepresentation.genotype_to_phenotype`) -/

/-- Through the whole loop of `create_tree_using_stacks` — from ANY stacks, failure count and
state, program or exception — a genotype-backed source stays the same genotype. -/
theorem C07_stack_source_never_leaves_genotype (g : Grammar) (order : List Ty) (limit fuel : Nat)
    (st : Stack.Stacks) (failures : Nat) (s : SynSt) (x : GeneSrc) (hs : s.src = .gene x) :
    ∃ y, (Stack.loop g order limit fuel st failures s).state.src = .gene y ∧ y.dna = x.dna :=
  StackLemmas.loop_respects geneKept_stepRel g order limit fuel st failures s x hs

/-- Stack mapping: by definition a function of (grammar, symbol list, failure limit, fuel, genes)
run on the state whose only random source is the genotype, with empty stacks and no failures —
there is no other stream it could draw from … -/
theorem C07_mapStack_deterministic (g : Grammar) (order : List Ty) (limit fuel : Nat)
    (dna : List Int) :
    Stack.mapStack g order limit fuel dna =
      Stack.loop g order limit fuel (order.map fun t => (t, [])) 0
        { src := .gene { dna := dna, index := 0 } } ∧
    ∃ y, (Stack.mapStack g order limit fuel dna).state.src = .gene y ∧ y.dna = dna :=
  ⟨rfl, StackLemmas.mapStack_geneKept g order limit fuel dna⟩

/-- … and at the end of the mapping, whether it returns a program or raises, that source is
still the same genotype (only the cursor moved): nothing else was ever drawn from, and the
genotype was not modified. -/
theorem C07_mapStack_keeps_genotype (g : Grammar) (order : List Ty) (limit fuel : Nat)
    (dna : List Int) :
    (∀ v s', Stack.mapStack g order limit fuel dna = .ok v s' → ∃ y, s'.src = .gene y ∧ y.dna = dna) ∧
    (∀ e s', Stack.mapStack g order limit fuel dna = .err e s' → ∃ y, s'.src = .gene y ∧ y.dna = dna) := by
  have h := StackLemmas.mapStack_geneKept g order limit fuel dna
  constructor
  · intro v s' hr
    rw [hr] at h
    exact h
  · intro e s' hr
    rw [hr] at h
    exact h

/-! #### Non-vacuity (stack machine) -/

/-- a run that really reads genes (three symbols drawn, the second step builds the node): the
source at the end is the genotype, cursor moved -/
example : Stack.mapStack StackLemmas.stackRefG StackLemmas.stackRefOrder 100 10 [0, 200000, 0] =
    .ok (.node 0 0 0 [.int 0]) { src := .gene { dna := [0, 200000, 0], index := 2 } } := by rfl

/-- a longer run (13 steps, 21 genes read) returning a program, and one that raises -/
example : StackLemmas.okVal (Stack.mapStack StackLemmas.stackExG StackLemmas.stackExOrder 100 50
    StackLemmas.stackExDna) StackLemmas.stackExVal = true := by decide +kernel
example : StackLemmas.errIs (Stack.mapStack StackLemmas.stackExG StackLemmas.stackExOrder 3 50 [0, 0])
    .library = true := by decide +kernel

end GEVerif.C07
