/-
  C09 — operators and steps never modify their inputs.

  The functional models (`createNode`, `treeMutate`, `treeCrossover`, the genotype operators,
  the steps) take their inputs as VALUES and return new values: there, non-modification holds by
  construction and says nothing about Python objects.  What can be PROVED about the real
  mechanism is the frame property of the two places where the code writes into structure that
  may be shared with an input:

  * label memoisation (`relabel_nodes` returns early on `gengy_labeled` nodes instead of
    rewriting them) — modelled with explicit caches in `Model/Labels.lean` (`LVal`,
    `relabelMemo`): relabelling a tree built over already-labelled (parental) subtrees returns
    those subtrees unchanged, cache for cache;
  * dynamic SGE's on-demand extension — existing genes never change (prefix-monotone).

  * the gene CONTAINERS of the linear and structured representations, as objects: `Model/Heap.lean` is a
    heap of gene-list objects and genotype dictionaries on which GE / stack / SGE / dynamic-SGE `create`,
    `mutate`, `crossover` and the dynamic-SGE mapping are written as the allocations, copies and in-place
    writes the code performs.  Proved for every operation sequence: no sharing ever arises
    (`C09_heap_no_sharing_ever`), every genotype object that is not handed to the dynamic-SGE mapping reads
    the same afterwards (`C09_heap_inputs_unchanged`), a mapped one is only extended
    (`C09_heap_mapping_only_extends`), and the other operators write into nothing that existed before
    (`C09_heap_operators_only_allocate`).  The harness compares the model's object graph with the real
    one (`id()` of every gene list, addresses renamed by first occurrence) after every operation.

  Everything else (cached phenotype / fitness, tree-node sharing) is established on the implementation
  by the deep snapshots of `harness/props/c09.py`.
-/
import GEVerif.Props.C11
import GEVerif.Props.C07
import GEVerif.Props.C06
import GEVerif.Lemmas.Heap

namespace GEVerif.C09
open GEVerif GEVerif.Heap

/-- Relabelling a fully labelled (parental) tree writes nothing: the result is the identical
tree, every cache included. -/
theorem C09_relabel_writes_nothing (g : Grammar) (t : LVal) (h : t.fullyLabelled = true) :
    (relabelMemo g t).2 = t := C11.C11_memo_reuses g t h

/-- Relabelling never changes the structure it is given (only fills caches). -/
theorem C09_relabel_keeps_structure (g : Grammar) (t : LVal) (h : CachesCorrect g t) :
    (relabelMemo g t).2.erase = t.erase := (C11.C11_memo_sound g t h).2.1

/-- Dynamic SGE mapping never changes an existing gene: for every key the old gene list is a
prefix of the new one (the only permitted side effect on a genotype). -/
theorem C09_dsge_mapping_only_extends (g : Grammar) (maxDepth fuel : Nat) (dna : DSGEDna)
    (shared : Script) (k : Ty) :
    tyLookup k [] dna <+: tyLookup k [] (mapDSGE g maxDepth fuel dna shared).state.dna :=
  C07.C07_dsge_extension_monotone g maxDepth fuel dna shared k

/-- GE / SGE mapping never changes the genotype it reads. -/
theorem C09_ge_mapping_keeps_genotype (g : Grammar) (dec : Decider) (fuel : Nat) (dna : List Int) (e : Bool) :
    ∃ y, (mapGE g dec fuel dna e).state.src = AnySrc.gene y ∧ y.dna = dna :=
  (C07.C07_mapGE_deterministic g dec fuel dna e).2


/-! ### The object level: gene containers of the linear and structured representations (`Model/Heap.lean`)

`Heap.run h ops` executes any sequence of `create`, `mutate`, `crossover` (GE / stack, SGE, dynamic SGE) and dynamic-SGE
mappings on a heap of gene-list objects and genotype dictionaries.  `g` ranges over ALL genotype objects ever made
(the population, its ancestors, offspring that were discarded). -/

/-- No sharing, ever: starting from the empty heap (or any heap without sharing), after any sequence of operations no
gene-list object belongs to two genotypes or to two keys of one genotype, and no genotype refers to an object that
does not exist.  ("Offspring may share sub-structures with their parents only in ways that later operations never
mutate": for these representations they share nothing.) -/
theorem C09_heap_no_sharing_ever (ops : List Op) : Sep (run empty ops) := run_sep sep_empty ops

theorem C09_heap_sep_invariant {h : Heap} (s : Sep h) (ops : List Op) : Sep (run h ops) := run_sep s ops

/-- what `Sep` says about two different genotype objects: they own different gene-list objects -/
theorem C09_heap_distinct_genotypes_disjoint {h : Heap} (s : Sep h) {g g' a : Nat} (hne : g ≠ g')
    (h1 : a ∈ addrs (h.genoAt g)) : a ∉ addrs (h.genoAt g') := fun h2 => s.disjoint hne h1 h2

/-- Inputs are never modified: a genotype object that exists now reads exactly the same -- same keys in the same order,
same genes -- after ANY sequence of operations on it and on everything else, provided it is not itself handed to
the dynamic-SGE mapping (the one operation that is allowed to extend its argument).  Parents of mutations and
crossovers, however often they are used, and genotypes mapped by GE / SGE / stack are covered: those operations
have no in-place target at all. -/
theorem C09_heap_inputs_unchanged {h : Heap} (s : Sep h) (ops : List Op) {g : Nat} (hg : g < h.genos.length)
    (hno : ∀ op ∈ ops, op.target ≠ some g) : (run h ops).view g = h.view g := run_frame s ops hg hno

/-- ... and a genotype that IS mapped (dynamic SGE) is only ever extended: every key keeps its position and every
gene list is a prefix of what it becomes; no existing gene changes, whatever else happens in between.
(No separation hypothesis: this holds of every heap.) -/
theorem C09_heap_mapping_only_extends (h : Heap) (ops : List Op) (g i k : Nat) (l : List Int)
    (hv : (h.view g)[i]? = some (k, l)) : ∃ l', ((run h ops).view g)[i]? = some (k, l') ∧ l <+: l' :=
  (run_grows h ops).view g i k l hv

/-- the operators that are not the dynamic-SGE mapping write into nothing that existed before the call: every
gene-list object and every genotype object of the heap is identical afterwards (object for object, not just
through the genotypes that are still in use) -/
theorem C09_heap_operators_only_allocate (h : Heap) (op : Op) (hno : op.target = none) :
    ∃ ls gs, (step h op).lists = h.lists ++ ls ∧ (step h op).genos = h.genos ++ gs := by
  rcases step_fresh_or_map h op with e | ⟨g, ext, rfl⟩
  · obtain ⟨ls, gs, h1, h2, -, -⟩ := e; exact ⟨ls, gs, h1, h2⟩
  · simp [Op.target] at hno

/-! refinement: the object-level operators compute the genes of the value-level operators of `Model/Linear.lean` -/

/-- a well-formed GE / stack genotype object: one key, a gene list that exists -/
def FlatAt (h : Heap) (g : Nat) (dna : List Int) : Prop :=
  ∃ a, h.genos[g]? = some [(0, a)] ∧ h.lists[a]? = some dna

theorem C09_heap_flat_mutate_refines {h : Heap} {g : Nat} {dna : List Int} (w : FlatAt h g dna) (r : Nat) (v : Int) :
    FlatAt (flatMutate h g r v) h.genos.length (dna.set r v) ∧ FlatAt (flatMutate h g r v) g dna := by
  obtain ⟨a, hg, ha⟩ := w
  have hgl : g < h.genos.length := (List.getElem?_eq_some_iff.1 hg).1
  have hal : a < h.lists.length := (List.getElem?_eq_some_iff.1 ha).1
  have e1 : h.genoAt g = [(0, a)] := by simp [Heap.genoAt, hg]
  have e2 : h.listAt a = dna := by simp [Heap.listAt, ha]
  refine ⟨⟨h.lists.length, ?_, ?_⟩, ⟨a, ?_, ?_⟩⟩
  · simp [flatMutate, Heap.allocGeno, Heap.setItem, Heap.allocList]
  · simp [flatMutate, e1, dictGet, Heap.allocGeno, Heap.setItem, Heap.allocList, Heap.listAt, ha]
  · simp [flatMutate, Heap.allocGeno, Heap.setItem, Heap.allocList, List.getElem?_append_left hgl, hg]
  · simp only [flatMutate, Heap.allocGeno, Heap.setItem, Heap.allocList, List.getElem?_set]
    rw [if_neg (by omega), List.getElem?_append_left hal, ha]

theorem C09_heap_flat_crossover_refines {h : Heap} {g1 g2 : Nat} {p1 p2 : List Int} (w1 : FlatAt h g1 p1) (w2 : FlatAt h g2 p2)
    (cut : Nat) :
    FlatAt (flatCrossover h g1 g2 cut) h.genos.length (p1.take cut ++ p2.drop cut) ∧
    FlatAt (flatCrossover h g1 g2 cut) (h.genos.length + 1) (p2.take cut ++ p1.drop cut) ∧
    FlatAt (flatCrossover h g1 g2 cut) g1 p1 ∧ FlatAt (flatCrossover h g1 g2 cut) g2 p2 := by
  obtain ⟨a1, hg1, ha1⟩ := w1
  obtain ⟨a2, hg2, ha2⟩ := w2
  have hgl1 : g1 < h.genos.length := (List.getElem?_eq_some_iff.1 hg1).1
  have hgl2 : g2 < h.genos.length := (List.getElem?_eq_some_iff.1 hg2).1
  have hal1 : a1 < h.lists.length := (List.getElem?_eq_some_iff.1 ha1).1
  have hal2 : a2 < h.lists.length := (List.getElem?_eq_some_iff.1 ha2).1
  have e1 : h.genoAt g1 = [(0, a1)] := by simp [Heap.genoAt, hg1]
  have e2 : h.genoAt g2 = [(0, a2)] := by simp [Heap.genoAt, hg2]
  have f1 : h.listAt a1 = p1 := by simp [Heap.listAt, ha1]
  have f2 : h.listAt a2 = p2 := by simp [Heap.listAt, ha2]
  simp only [flatCrossover, e1, e2, dictGet, List.find?_cons, BEq.rfl, Option.map_some, Option.getD_some, f1, f2,
    Heap.allocList, Heap.allocGeno]
  refine ⟨⟨h.lists.length, ?_, ?_⟩, ⟨h.lists.length + 1, ?_, ?_⟩, ⟨a1, ?_, ?_⟩, ⟨a2, ?_, ?_⟩⟩
  · simp
  · simp
  · simp
  · simp
  · simp [List.getElem?_append_left hgl1, hg1]
  · rw [List.append_assoc, List.getElem?_append_left hal1, ha1]
  · simp [List.getElem?_append_left hgl2, hg2]
  · rw [List.append_assoc, List.getElem?_append_left hal2, ha2]

/-! refinement of the structured operators and of the mapping (value level: `Model/Linear.lean` -- `sgeMutate` / `dsgeMutate` replace
one gene of one list, `sgeCrossoverWith` / `dsgeCrossoverWith` choose per key of parent 1, `mapDSGE` appends the genes it draws) -/

/-- SGE / dynamic-SGE `mutate`: the new genotype object reads like its parent with gene `r` of list number `k` replaced (exactly
like its parent when no gene was chosen), and the parent reads as before -/
theorem C09_heap_struct_mutate_refines {h : Heap} (s : Sep h) {g : Nat} (hg : g < h.genos.length) (choice : Option (Nat × Nat × Int)) :
    (structMutate h g choice).view h.genos.length =
      (match choice with
       | none => h.view g
       | some (k, r, v) => (h.view g).modify k (fun x => (x.1, x.2.set r v))) ∧
    (structMutate h g choice).view g = h.view g :=
  ⟨structMutate_view h g (s.valid_genoAt g) choice, (structMutate_fresh h g choice).view_eq s hg⟩

/-- SGE / dynamic-SGE `crossover`: over the keys of parent 1, one mask bit per key, child 1 reads parent 1's genes where the bit
is set and parent 2's (`[]` for a key parent 2 lacks) where it is not, child 2 the other way round; both parents read as before -/
theorem C09_heap_struct_crossover_refines {h : Heap} (s : Sep h) {g1 g2 : Nat} (h1 : g1 < h.genos.length) (h2 : g2 < h.genos.length)
    (mask : List Bool) :
    let km := ((h.genoAt g1).map (·.1)).zip mask
    (structCrossover h g1 g2 mask).view h.genos.length =
      km.map (fun e => (e.1, if e.2 then rd h (h.genoAt g1) e.1 else rd h (h.genoAt g2) e.1)) ∧
    (structCrossover h g1 g2 mask).view (h.genos.length + 1) =
      km.map (fun e => (e.1, if e.2 then rd h (h.genoAt g2) e.1 else rd h (h.genoAt g1) e.1)) ∧
    (structCrossover h g1 g2 mask).view g1 = h.view g1 ∧ (structCrossover h g1 g2 mask).view g2 = h.view g2 := by
  intro km
  obtain ⟨a, b⟩ := structCrossover_view h g1 g2 (s.valid_genoAt g1) (s.valid_genoAt g2) mask
  exact ⟨a, b, (structCrossover_fresh h g1 g2 mask).view_eq s h1, (structCrossover_fresh h g1 g2 mask).view_eq s h2⟩

/-- dynamic-SGE mapping: the mapped genotype reads like before with the appended genes added to the lists of their keys and new keys
added at the end, in the order the mapping met them; every other genotype reads as before -/
theorem C09_heap_dsge_map_refines {h : Heap} (s : Sep h) {g : Nat} (hg : g < h.genos.length) (ext : List (Nat × List Int)) :
    (dsgeMap h g ext).view g = ext.foldl viewExtend (h.view g) ∧
    ∀ g', g' ≠ g → (dsgeMap h g ext).view g' = h.view g' :=
  ⟨dsgeMap_view s hg ext, fun _ hne => dsgeMap_frame s hne ext⟩

example : viewExtend [(7, [1, 2]), (8, [])] (7, [6]) = [(7, [1, 2, 6]), (8, [])] := by decide
example : viewExtend [(7, [1, 2]), (8, [])] (5, [0, 0]) = [(7, [1, 2]), (8, []), (5, [0, 0])] := by decide

/-! non-vacuity: a history with every kind of operation; the mapped genotype (#2) grows, its parent (#0) and its sibling
do not, nothing is shared -/
def demoOps : List Op :=
  [.structCreate [(7, [1, 2]), (8, [3])], .structCreate [(7, [4, 5]), (9, [])],
   .structCrossover 0 1 [true, false], .dsgeMap 2 [(7, [6]), (5, [0, 0])], .structMutate 2 (some (0, 2, 99)),
   .flatCreate [1, 2, 3], .flatMutate 5 1 42, .flatCrossover 5 6 2]

example : (run empty demoOps).view 0 = [(7, [1, 2]), (8, [3])] := by decide
example : (run empty demoOps).view 2 = [(7, [1, 2, 6]), (8, []), (5, [0, 0])] := by decide
example : (run empty demoOps).view 4 = [(7, [1, 2, 99]), (8, []), (5, [0, 0])] := by decide
example : (run empty demoOps).view 6 = [(0, [1, 42, 3])] := by decide
example : (run empty demoOps).view 8 = [(0, [1, 42, 3])] := by decide
example : (allAddrs (run empty demoOps)).Nodup := by decide
example : ∀ op ∈ demoOps, op.target ≠ some 0 := by decide


end GEVerif.C09
