/-
  C09 — operators and steps never modify their inputs.

  The functional models (`createNode`, `treeMutate`, `treeCrossover`, the genotype operators,
  the steps) take their inputs as VALUES and return new values: there, non-modification holds by
  construction and says nothing about Python objects.  What can be PROVED about the real
  mechanism is the frame property of the two places where the code writes into structure that
  may be shared with an input:

  * label memoisation (`relabel_nodes` returns early on `gengy_labeled` nodes instead of
    rewriting them) — modelled with explicit caches in `Model/Labels.lean` (`LVal`,
    `relabelMemo`): relabelling a tree built over already-labelled (parental) subtrees returns
    those subtrees unchanged, cache for cache;
  * dynamic SGE's on-demand extension — existing genes never change (prefix-monotone).

  Everything else (object identity, cached phenotype / fitness, sharing graph) is established on
  the implementation by the deep snapshots of `harness/props/c09.py`.
-/
import GEVerif.Props.C11
import GEVerif.Props.C07
import GEVerif.Props.C06

namespace GEVerif.C09
open GEVerif

/-- Relabelling a fully labelled (parental) tree writes nothing: the result is the identical
tree, every cache included. -/
theorem C09_relabel_writes_nothing (g : Grammar) (t : LVal) (h : t.fullyLabelled = true) :
    (relabelMemo g t).2 = t := C11.C11_memo_reuses g t h

/-- Relabelling never changes the structure it is given (only fills caches). -/
theorem C09_relabel_keeps_structure (g : Grammar) (t : LVal) (h : CachesCorrect g t) :
    (relabelMemo g t).2.erase = t.erase := (C11.C11_memo_sound g t h).2.1

/-- Dynamic SGE mapping never changes an existing gene: for every key the old gene list is a
prefix of the new one (the only permitted side effect on a genotype). -/
theorem C09_dsge_mapping_only_extends (g : Grammar) (maxDepth fuel : Nat) (dna : DSGEDna)
    (shared : Script) (k : Ty) :
    tyLookup k [] dna <+: tyLookup k [] (mapDSGE g maxDepth fuel dna shared).state.dna :=
  C07.C07_dsge_extension_monotone g maxDepth fuel dna shared k

/-- GE / SGE mapping never changes the genotype it reads. -/
theorem C09_ge_mapping_keeps_genotype (g : Grammar) (dec : Decider) (fuel : Nat) (dna : List Int) (e : Bool) :
    ∃ y, (mapGE g dec fuel dna e).state.src = AnySrc.gene y ∧ y.dna = dna :=
  (C07.C07_mapGE_deterministic g dec fuel dna e).2

end GEVerif.C09
