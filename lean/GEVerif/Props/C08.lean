/-
  C08 — same seed, same search, within and across processes.

  Inside one process determinism is immediate: the model is a function of the configuration and
  the random stream (theorem 5; `same seed ⇒ same stream` is C18).  Across processes the only thing
  that can differ is the iteration order of the Python `set`s of grammar symbols, which depends on
  object addresses.  The model makes that order an explicit parameter (`GEVerif.Order`), and the
  theorems say that no modelled function depends on it:

  1. `sorted(set, key=str)` returns the same list for every enumeration of the set
     (`C08_sorted_perm_invariant`), hence so does anything computed from it
     (`C08_sorted_iteration_order_independent`);
  2. SGE genotype creation AS REPAIRED is order-independent; AS IT WAS it is not (witness);
  3. the stack machine's symbol pick AS REPAIRED is order-independent; AS IT WAS it is not (witness);
  4. the grammar analysis still iterates a set, but its result is the unique solution of the
     distance equations (C05), so the visiting order cannot matter;
  5. tree synthesis has no input but configuration and stream.

  Assumption (guaranteed by the harness): distinct symbols have distinct `str()` — the hypothesis
  `∀ a ∈ xs, ∀ b ∈ xs, key a = key b → a = b`.

  Partial by nature: CPython's address-dependent hashing and hidden interpreter state are outside
  any model; the order parameter over-approximates the former, fresh interpreters sample the latter
  (harness/props/c08.py).

  NOT proved here (not cheap): "two scripted streams that agree on the first `k` draws give the
  same run when the run consumes at most `k` draws" for `createNode`.
-/
import GEVerif.Model.Synth
import GEVerif.Model.Order
import GEVerif.Lemmas.Order
import GEVerif.Props.C05

namespace GEVerif.C08
open GEVerif GEVerif.Order GEVerif.OrderLemmas GEVerif.Analysis

/-! ### 1. `sorted` forgets the order of its input -/

/-- `sorted(xs, key)` is a permutation of `xs` … -/
theorem C08_sorted_perm {α : Type} (key : α → Nat) (xs : List α) : (sortBy key xs).Perm xs :=
  sortBy_perm key xs

/-- … in non-decreasing key order. -/
theorem C08_sorted_sorted {α : Type} (key : α → Nat) (xs : List α) :
    (sortBy key xs).Pairwise fun a b => key a ≤ key b :=
  sortBy_sorted key xs

/-- Two enumerations of the same collection whose elements have pairwise distinct keys sort to the
same list. -/
theorem C08_sorted_perm_invariant {α : Type} (key : α → Nat) {xs ys : List α}
    (hperm : xs.Perm ys) (hinj : ∀ a ∈ xs, ∀ b ∈ xs, key a = key b → a = b) :
    sortBy key xs = sortBy key ys :=
  sortBy_perm_invariant key hperm hinj

/-- Hence every computation that only sees the collection through `sorted(…)` — any loop
`for x in sorted(symbols, key=str)` — is independent of the enumeration. -/
theorem C08_sorted_iteration_order_independent {α β : Type} (key : α → Nat) (f : List α → β)
    {xs ys : List α} (hperm : xs.Perm ys) (hinj : ∀ a ∈ xs, ∀ b ∈ xs, key a = key b → a = b) :
    f (sortBy key xs) = f (sortBy key ys) :=
  congrArg f (sortBy_perm_invariant key hperm hinj)

/-! ### 2. SGE genotype creation -/

/-- AS REPAIRED: for any two enumerations of the symbol set, `create_genotype` returns the same
genotype (or the same error) and leaves the same state, from the same state. -/
theorem C08_sge_create_order_independent (extra : List Key → List Key) (key : Key → Nat)
    {xs ys : List Key} (hperm : xs.Perm ys)
    (hinj : ∀ a ∈ xs, ∀ b ∈ xs, key a = key b → a = b) (L : Nat) (s : SynSt) :
    sgeCreate extra key xs L s = sgeCreate extra key ys L s := by
  unfold sgeCreate
  rw [sortBy_perm_invariant key hperm hinj]

/-- The repaired function is the old one run on the canonical order. -/
theorem C08_sge_create_eq_with_sorted (extra : List Key → List Key) (key : Key → Nat)
    (xs : List Key) (L : Nat) :
    sgeCreate extra key xs L = sgeCreateWith extra (sortBy key xs) L := rfl

/-- AS IT WAS (the defect that was repaired): with the set `{1, 2}` enumerated as `[1, 2]` and as
`[2, 1]`, one gene per key and the scripted stream `5, 6, 7`, the two keys receive each other's
genes. -/
theorem C08_sge_create_order_dependent_witness :
    let s : SynSt := { src := .scripted { draws := [5, 6, 7] } }
    [1, 2].Perm [2, 1] ∧
    resVal (sgeCreateWith (fun _ => []) [1, 2] 1 s) = some [(1, [5]), (2, [6]), (INFRA, [7])] ∧
    resVal (sgeCreateWith (fun _ => []) [2, 1] 1 s) = some [(2, [5]), (1, [6]), (INFRA, [7])] ∧
    resVal (sgeCreateWith (fun _ => []) [1, 2] 1 s) ≠ resVal (sgeCreateWith (fun _ => []) [2, 1] 1 s) := by
  refine ⟨List.Perm.swap 2 1 [], ?_, ?_, ?_⟩ <;> decide

/-! ### 3. Stack mapping -/

/-- AS REPAIRED: the symbol a gene selects does not depend on the enumeration of the set. -/
theorem C08_stack_pick_order_independent (key : Key → Nat) {xs ys : List Key}
    (hperm : xs.Perm ys) (hinj : ∀ a ∈ xs, ∀ b ∈ xs, key a = key b → a = b) (i : Nat) :
    stackPickSorted key xs i = stackPickSorted key ys i := by
  unfold stackPickSorted
  rw [sortBy_perm_invariant key hperm hinj]

/-- AS IT WAS: the same gene selects different symbols under two enumerations of `{1, 2}`. -/
theorem C08_stack_pick_order_dependent_witness :
    [1, 2].Perm [2, 1] ∧ stackPick [1, 2] 0 = some 1 ∧ stackPick [2, 1] 0 = some 2 ∧
    stackPick [1, 2] 0 ≠ stackPick [2, 1] 0 := by
  refine ⟨List.Perm.swap 2 1 [], ?_, ?_, ?_⟩ <;> decide

/-- A pick is always a member of the set, whatever the order, and exists iff the set is non-empty. -/
theorem C08_stack_pick_mem (key : Key → Nat) (xs : List Key) (i : Nat) (k : Key)
    (h : stackPickSorted key xs i = some k) : k ∈ xs := by
  unfold stackPickSorted stackPick at h
  exact (mem_sortBy key k xs).1 (List.mem_of_getElem? h)

/-! ### 4. Grammar analysis (`Grammar.preprocess` iterates a set) -/

/-- Two tables over the same keys that both solve the distance equations agree everywhere (C05):
a loop visiting the symbols in another order, if it stops on a solution, stops on the same one. -/
theorem C08_analysis_fixpoint_unique {g : GrammarSpec} {r : Reg} {d d' : DistTable}
    (hfix : isFixpoint g r d = true) (hfix' : isFixpoint g r d' = true)
    (hcl : Closed g r d) (hcl' : Closed g r d')
    {rank : Nat → Nat} (hr : AltsRanked r rank)
    (hkeys : ∀ s, s ∈ keys d ↔ s ∈ keys d') (s : Sym) :
    lookupDist d s = lookupDist d' s :=
  GEVerif.C05.C05_fixpoint_unique hfix hfix' hcl hcl' hr hkeys s

/-- ANY solution of the equations over the registered symbols is the table the analysis reports,
so the order in which Python's loop visits the symbol set cannot matter. -/
theorem C08_analysis_order_independent (g : GrammarSpec) {rank : Nat → Nat}
    (hrank : ParentRanked g.classes rank)
    (hcl : Closed g (analyse g).reg (analyse g).dist)
    {d' : DistTable} (hfix' : isFixpoint g (analyse g).reg d' = true)
    (hkeys : ∀ s, s ∈ keys d' ↔ s ∈ (analyse g).reg.allNodes) (s : Sym) :
    lookupDist d' s = lookupDist (analyse g).dist s :=
  GEVerif.C05.C05_analyse_order_independent g hrank hcl hfix' hkeys s

/-! ### 5. Synthesis is a function of configuration and stream -/

/-- `create_node` has no input besides its configuration (grammar, decider, fuel, type, context,
sibling values) and the synthesis state (the stream, PI-grow's flag, the dynamic-SGE genotype):
two runs from equal states return equal results and leave equal states. -/
theorem C08_model_run_is_function_of_stream (g : Grammar) (dec : Decider) (fuel : Nat) (ty : Ty)
    (ctx : Ctx) (deps : List (String × Val)) (s₁ s₂ : SynSt) (h : s₁ = s₂) :
    createNode g dec fuel ty ctx deps s₁ = createNode g dec fuel ty ctx deps s₂ :=
  congrArg _ h

/-- In particular two searches fed the same scripted draws build the same first tree. -/
theorem C08_random_tree_same_draws (g : Grammar) (dec : Decider) (fuel : Nat)
    (draws₁ draws₂ : List Nat) (h : draws₁ = draws₂) :
    randomTree g dec fuel { src := .scripted { draws := draws₁ } } =
      randomTree g dec fuel { src := .scripted { draws := draws₂ } } := by
  rw [h]

/-! ### Non-vacuity -/

/-- keys in reverse numeric order (`str` order need not follow creation order) -/
private def revKey : Key → Nat := fun k => 10 - k

example : sortBy revKey [3, 1, 2] = [3, 2, 1] ∧ sortBy revKey [2, 3, 1] = [3, 2, 1] := by decide

/-- the sort is stable: equal keys keep their input order -/
example : sortBy (fun p : Nat × Nat => p.1) [(2, 0), (1, 0), (2, 1), (1, 1)] =
    [(1, 0), (1, 1), (2, 0), (2, 1)] := by decide

/-- theorem 1 on a concrete permutation with injective keys -/
example : sortBy revKey [3, 1, 2] = sortBy revKey [2, 3, 1] :=
  C08_sorted_perm_invariant revKey (xs := [3, 1, 2]) (ys := [2, 3, 1]) (by decide) (by decide)

/-- the injectivity hypothesis is needed: with tied keys the (stable) result follows the input -/
example : [(1, 0), (1, 1)].Perm [(1, 1), (1, 0)] ∧
    sortBy (fun p : Nat × Nat => p.1) [(1, 0), (1, 1)] ≠
      sortBy (fun p : Nat × Nat => p.1) [(1, 1), (1, 0)] :=
  ⟨List.Perm.swap _ _ _, by decide⟩

/-- the repaired SGE creation on the two enumerations of the witness: same genotype, and field
types found on the way (`extra`) are keyed after the symbols -/
example :
    let s : SynSt := { src := .scripted { draws := [5, 6, 7, 8] } }
    let extra : List Key → List Key := fun o => o.map (· + 10) |>.take 1
    resVal (sgeCreate extra id [1, 2] 1 s) = some [(1, [5]), (2, [6]), (11, [7]), (INFRA, [8])] ∧
    resVal (sgeCreate extra id [2, 1] 1 s) = some [(1, [5]), (2, [6]), (11, [7]), (INFRA, [8])] := by
  decide

example (s : SynSt) : sgeCreate (fun _ => []) id [1, 2] 3 s = sgeCreate (fun _ => []) id [2, 1] 3 s :=
  C08_sge_create_order_independent _ id (List.Perm.swap 2 1 []) (by decide) 3 s

/-- the repaired stack pick -/
example : stackPickSorted revKey [1, 2, 3] 4 = some 2 ∧ stackPickSorted revKey [2, 3, 1] 4 = some 2 := by
  decide

example (i : Nat) : stackPickSorted revKey [1, 2, 3] i = stackPickSorted revKey [2, 3, 1] i :=
  C08_stack_pick_order_independent revKey (xs := [1, 2, 3]) (ys := [2, 3, 1]) (by decide) (by decide) i

/-- theorem 4 on the example grammar of C05: the analysed table listed in REVERSE order is another
table over the same keys that solves the equations; it agrees with the reported one everywhere -/
example (s : Sym) :
    lookupDist (analyse (exSpec false)).dist.reverse s = lookupDist (analyse (exSpec false)).dist s :=
  C08_analysis_order_independent (exSpec false) (exRanked false) (by decide) (by decide)
    (fun x => by
      rw [show keys (analyse (exSpec false)).dist.reverse
            = (analyse (exSpec false)).reg.allNodes.reverse from by decide]
      exact List.mem_reverse) s

/-- AS IT WAS (repaired by 71dabda): the hypothesis of `C08_stack_pick_order_independent` -- pairwise distinct keys -- is not a
formality.  Two symbols that print alike (two refinement objects with equal parameters) have ONE key; a stable sort leaves them in
the order of the enumeration, and the same gene selects different symbols under two enumerations of the same set. -/
theorem C08_stack_twins_witness :
    [1, 2].Perm [2, 1] ∧ stackPickSorted (fun _ => 7) [1, 2] 0 = some 1 ∧ stackPickSorted (fun _ => 7) [2, 1] 0 = some 2 := by
  refine ⟨List.Perm.swap 2 1 [], ?_, ?_⟩ <;> decide

/-- the combined key orders by printed form first … -/
theorem C08_tie_break_respects_key (key rank : Key → Nat) (M : Nat) (a b : Key) (ha : rank a < M) (hk : key a < key b) :
    key a * M + rank a < key b * M + rank b := by
  have : (key a + 1) * M ≤ key b * M := Nat.mul_le_mul_right M hk
  rw [Nat.add_mul, Nat.one_mul] at this
  omega

/-- AS REPAIRED: ties in the printed form are broken by the rank of first mention in a deterministic walk over the grammar (pairwise
distinct, below `M`).  Whatever the printed forms are -- equal ones included -- the symbol a gene selects does not depend on the
enumeration of the set. -/
theorem C08_stack_pick_ties_broken (key rank : Key → Nat) (M : Nat) {xs ys : List Key} (hperm : xs.Perm ys)
    (hr : ∀ a ∈ xs, rank a < M) (hinj : ∀ a ∈ xs, ∀ b ∈ xs, rank a = rank b → a = b) (i : Nat) :
    stackPickSorted (fun a => key a * M + rank a) xs i = stackPickSorted (fun a => key a * M + rank a) ys i := by
  apply C08_stack_pick_order_independent _ hperm
  intro a ha b hb h
  apply hinj a ha b hb
  have h1 := hr a ha
  have h2 := hr b hb
  have hm : (key a * M + rank a) % M = (key b * M + rank b) % M := by rw [h]
  rw [Nat.mul_add_mod_self_right, Nat.mul_add_mod_self_right, Nat.mod_eq_of_lt h1, Nat.mod_eq_of_lt h2] at hm
  exact hm

example : stackPickSorted (fun a => 7 * 4 + a) [1, 2] 0 = stackPickSorted (fun a => 7 * 4 + a) [2, 1] 0 := by decide

end GEVerif.C08
