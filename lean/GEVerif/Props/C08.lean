/-
  C08 — same seed, same search (theorems are added below).
-/
import GEVerif.Model.Synth

namespace GEVerif.C08
open GEVerif

theorem C08_placeholder : True := trivial

end GEVerif.C08
