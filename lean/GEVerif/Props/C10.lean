/-
  C10 — the grammar is read-only during synthesis and search.

  Two layers.  (1) In the functional model of synthesis (`Model/Synth.lean`) the grammar is an
  immutable argument and no function returns a grammar: nothing modelled there CAN change it;
  the tie to the code is the correspondence check, which snapshots every grammar observable
  before and after every API call (failing ones included) and compares it with the model's
  analysis of the unchanged class declarations.  (2) The one place where the real code held a
  mutable alias to the grammar — the retry loop of `create_node` — is modelled with the grammar
  as explicit state (`Model/GrammarState.lean`), and proved frame-preserving as repaired, for
  every failure pattern, decider and history; the pinned variant is proved to violate it.
-/
import GEVerif.Model.GrammarState
import GEVerif.Model.Synth

namespace GEVerif.C10
open GEVerif GEVerif.GState

/-- The repaired retry loop never changes the grammar — whatever productions fail, whatever the
decider picks, success or `SynthesisException`. -/
theorem C10_retry_frame (att : Attempt) (ch : Chooser) (sym : Nat) (g : G) :
    (retryCopy att ch sym g).2 = g := rfl

/-- Over any history of operations (including failing and backtracking ones) the grammar at the
end is the grammar at the start. -/
theorem C10_history_frame (ops : List (Nat × Attempt × Chooser)) (g : G) :
    (runCopy ops g).2 = g := by
  induction ops generalizing g with
  | nil => rfl
  | cons op rest ih =>
    obtain ⟨sym, att, ch⟩ := op
    simp only [runCopy, retryCopy]
    exact ih g

/-- Consequently the outcome of an expansion depends only on the expansion itself, not on what
happened earlier in the process: the set of creatable programs neither shrinks nor grows. -/
theorem C10_history_independent (before : List (Nat × Attempt × Chooser))
    (sym : Nat) (att : Attempt) (ch : Chooser) (g : G) :
    (retryCopy att ch sym (runCopy before g).2).1 = (retryCopy att ch sym g).1 := by
  rw [C10_history_frame]

private theorem lookup_store_self (sym : Nat) (v : List Nat) (alts : List (Nat × List Nat))
    (h : ∃ w, (sym, w) ∈ alts) : lookup sym (store sym v alts) = v := by
  induction alts with
  | nil => obtain ⟨w, hw⟩ := h; cases hw
  | cons kv rest ih =>
    obtain ⟨k, v'⟩ := kv
    by_cases hk : k = sym
    · simp [store, lookup, hk]
    · simp only [store, lookup, hk, if_false]
      apply ih
      obtain ⟨w, hw⟩ := h
      cases hw with
      | head => exact absurd rfl hk
      | tail _ hm => exact ⟨w, hm⟩

private theorem store_has_key (sym : Nat) (v : List Nat) (alts : List (Nat × List Nat))
    (h : ∃ w, (sym, w) ∈ alts) : ∃ w, (sym, w) ∈ store sym v alts := by
  induction alts with
  | nil => obtain ⟨w, hw⟩ := h; cases hw
  | cons kv rest ih =>
    obtain ⟨k, v'⟩ := kv
    by_cases hk : k = sym
    · subst hk
      exact ⟨v, by simp [store]⟩
    · obtain ⟨w, hw⟩ := h
      cases hw with
      | head => exact absurd rfl hk
      | tail _ hm =>
        obtain ⟨w', hw'⟩ := ih ⟨w, hm⟩
        exact ⟨w', by simp only [store, hk, if_false]; exact List.mem_cons_of_mem _ hw'⟩

/-- The repaired loop and the pinned loop return the SAME production for a single call on a
symbol that has an entry: the defect was only the side effect. -/
theorem C10_alias_same_result (att : Attempt) (ch : Chooser) (sym : Nat) (fuel : Nat) (g : G)
    (h : ∃ w, (sym, w) ∈ g.alts) :
    (retryAliasLoop att ch sym fuel g).1 = retryCopyLoop att ch fuel (lookup sym g.alts) := by
  induction fuel generalizing g with
  | zero => rfl
  | succ fuel ih =>
    simp only [retryAliasLoop, retryCopyLoop]
    split
    · rfl
    · split
      · rfl
      · rw [ih _ (store_has_key _ _ _ h)]
        simp only
        rw [lookup_store_self _ _ _ h]

/-- The pinned loop violates the property: after ONE backtracking expansion (production 1 of
`Expr = 0 → [1, 2]` fails once) the production is gone from the grammar, and a later expansion
whose only viable production it is fails although nothing about it changed. -/
theorem C10_alias_witness :
    let g : G := { alts := [(0, [1, 2])] }
    let failsOne : Attempt := fun p => p != 1
    let first : Chooser := fun _ => 0
    (retryAlias failsOne first 0 g).2 = { alts := [(0, [2])] } ∧
    (retryAlias failsOne first 0 g).2 ≠ g ∧
    -- later, production 1 would succeed and 2 fails: creatable before, not creatable after
    (retryCopy (fun p => p == 1) first 0 g).1 = some 1 ∧
    (retryCopy (fun p => p == 1) first 0 (retryAlias failsOne first 0 g).2).1 = none := by
  decide

/-- In the synthesis model itself the grammar is an argument, never a result: the final state
of any creation carries the random stream, PI-grow's flag and the dSGE genotype — no grammar. -/
theorem C10_synthesis_state_has_no_grammar (g : Grammar) (dec : Decider) (fuel : Nat) (ty : Ty)
    (ctx : Ctx) (deps : List (String × Val)) (s : SynSt) :
    ∃ r : Res Val, createNode g dec fuel ty ctx deps s = r := ⟨_, rfl⟩

/-! ## Non-vacuity -/

example : (retryCopy (fun p => p != 1) (fun _ => 0) 0 { alts := [(0, [1, 2])] }).1 = some 2 := by decide
example : (runCopy [(0, fun p => p != 1, fun _ => 0), (0, fun p => p == 1, fun _ => 0)]
    { alts := [(0, [1, 2])] }).1 = [some 2, some 1] := by decide
example : (runAlias [(0, fun p => p != 1, fun _ => 0), (0, fun p => p == 1, fun _ => 0)]
    { alts := [(0, [1, 2])] }).1 = [some 2, none] := by decide

end GEVerif.C10
