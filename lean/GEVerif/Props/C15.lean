/-
  C15 — Population size is invariant across generations and step compositions.

  Property theorems only (helpers are `private` or live in Lemmas/Steps.lean).  The model is
  Model/Steps.lean: the steps as they are in /repo after the `fix:` commits.

  * `C15_ranges_sum`      — `compute_ranges`: for EVERY weight vector with a positive total and every
                            target, one slice per weight, `start ≤ end ≤ target`, sizes sum to the target;
    `C15_ranges_error`    — the only failing inputs are non-empty all-zero weight vectors (ZeroDivisionError);
  * `C15_step_count`      — every step tree (`Step.WF`: tournament size ≥ 1, sequences non-empty, one
                            weight per sub-step, positive total weight), asked for `k`, given ANY iterable
                            (list / Population / one-shot iterator, not yet consumed) of at least `k`
                            individuals, for every sound random source, every float script and every state:
                            returns (does not raise) and yields exactly `k`.  Induction on the step tree
                            (mutually: `C15_seq_count`, `C15_par_count`, `C15_xpar_count`);
  * `C15_init_count`, `C15_inject_count` — every initialiser combination yields exactly `k`;
  * `C15_gp_generation_size` — every generation of a run of any length has the configured size;
  * `C15_evaluate_count`  — `EvaluateStep` (not a sizing step) hands through its whole input once;
  * `C15_pinned_*_witness` — the counterexamples found on the tree before the `fix:` commits.
-/
import GEVerif.Model.Steps
import GEVerif.Lemmas.Steps

namespace GEVerif.C15
open GEVerif GEVerif.Steps

/-! ## `compute_ranges` -/

private theorem cumsumFrom_ge (run : Nat) (xs : List Nat) : ∀ y ∈ cumsumFrom run xs, run ≤ y := by
  induction xs generalizing run with
  | nil => simp [cumsumFrom]
  | cons x xs ih =>
    intro y hy
    simp only [cumsumFrom, List.mem_cons] at hy
    rcases hy with rfl | hy
    · omega
    · have := ih (run + x) y hy; omega

private theorem cumsumFrom_pairwise (run : Nat) (xs : List Nat) : (cumsumFrom run xs).Pairwise (· ≤ ·) := by
  induction xs generalizing run with
  | nil => simp [cumsumFrom]
  | cons x xs ih =>
    simp only [cumsumFrom, List.pairwise_cons]
    exact ⟨cumsumFrom_ge (run + x) xs, ih (run + x)⟩

private theorem cumsumFrom_length (run : Nat) (xs : List Nat) : (cumsumFrom run xs).length = xs.length := by
  induction xs generalizing run with
  | nil => rfl
  | cons x xs ih => simp [cumsumFrom, ih]

/-- telescoping: slice sizes between consecutive boundaries of a monotone list add up to
`last - first` -/
private theorem zip_tail_sum (a : Nat) (l : List Nat) (h : (a :: l).Pairwise (· ≤ ·)) :
    ((List.zip (a :: l) l).map (fun p => p.2 - p.1)).sum + a = (a :: l).getLast (by simp) := by
  induction l generalizing a with
  | nil => simp
  | cons b rest ih =>
    have hb : (b :: rest).Pairwise (· ≤ ·) := (List.pairwise_cons.mp h).2
    have hab : a ≤ b := (List.pairwise_cons.mp h).1 b (by simp)
    have := ih b hb
    simp only [List.zip_cons_cons, List.map_cons, List.sum_cons]
    rw [List.getLast_cons (by simp)]
    omega

private theorem zip_tail_mem (a : Nat) (l : List Nat) (h : (a :: l).Pairwise (· ≤ ·)) :
    ∀ p ∈ List.zip (a :: l) l, p.1 ≤ p.2 := by
  induction l generalizing a with
  | nil => simp
  | cons b rest ih =>
    intro p hp
    simp only [List.zip_cons_cons, List.mem_cons] at hp
    rcases hp with rfl | hp
    · exact (List.pairwise_cons.mp h).1 b (by simp)
    · exact ih b (List.pairwise_cons.mp h).2 p hp

private theorem boundaries_eq (ws : List Nat) (target : Nat) (hne : ws ≠ []) :
    ∃ c : List Nat, boundaries ws target = 0 :: (c ++ [target]) ∧ c.length + 1 = ws.length ∧
      (c ++ [target]).Pairwise (· ≤ ·) := by
  unfold boundaries
  simp only [List.map_cons, Nat.zero_min]
  let d := (cumsumFrom 0 (shares ws target)).map (fun i => min i target)
  have hd : d.length = ws.length := by simp [d, cumsumFrom_length, shares]
  have hdne : d ≠ [] := by
    intro h; rw [h] at hd; simp at hd; exact hne (List.eq_nil_of_length_eq_zero hd.symm)
  refine ⟨d.dropLast, ?_, ?_, ?_⟩
  · show (0 :: d).dropLast ++ [target] = _
    rw [List.dropLast_cons_of_ne_nil hdne]; simp
  · simp [hd]; have : 0 < ws.length := List.length_pos_iff.mpr hne; omega
  · have hpw : d.Pairwise (· ≤ ·) := by
      have := cumsumFrom_pairwise 0 (shares ws target)
      exact List.Pairwise.map _ (fun a b hab => by omega) this
    rw [List.pairwise_append]
    refine ⟨hpw.sublist (List.dropLast_sublist d), by simp, ?_⟩
    intro a ha b hb
    simp at hb; subst hb
    have : a ∈ d := (List.dropLast_sublist d).subset ha
    simp only [d, List.mem_map] at this
    obtain ⟨i, _, rfl⟩ := this
    omega

theorem C15_ranges_sum (ws : List Nat) (target : Nat) (hpos : 0 < ws.sum) :
    ∃ rs, computeRanges ws target = some rs ∧ rs.length = ws.length ∧
      (∀ p ∈ rs, p.1 ≤ p.2 ∧ p.2 ≤ target) ∧ (sliceSizes rs).sum = target := by
  have hne : ws ≠ [] := by intro h; subst h; simp at hpos
  obtain ⟨c, hb, hlen, hpw⟩ := boundaries_eq ws target hne
  have hpw0 : (0 :: (c ++ [target])).Pairwise (· ≤ ·) := List.pairwise_cons.mpr ⟨fun _ _ => Nat.zero_le _, hpw⟩
  refine ⟨(0 :: (c ++ [target])).zip (c ++ [target]), ?_, ?_, ?_, ?_⟩
  · unfold computeRanges
    have : ¬ (ws.sum = 0 ∧ ws ≠ []) := by omega
    simp only [this, if_false, hb, List.tail_cons]
  · simp; omega
  · intro p hp
    refine ⟨zip_tail_mem 0 _ hpw0 p hp, ?_⟩
    have hmem : p.2 ∈ c ++ [target] := (List.of_mem_zip hp).2
    rw [List.pairwise_append] at hpw
    rcases List.mem_append.mp hmem with h | h
    · exact hpw.2.2 _ h target (by simp)
    · simp at h; omega
  · have := zip_tail_sum 0 (c ++ [target]) hpw0
    simp only [sliceSizes]
    rw [List.getLast_cons (by simp)] at this
    simp at this
    omega

private theorem noveltyGo_length {σ : Type} (nc : Nat) (k : Nat) (st : St σ) : (noveltyGo nc k st).1.length = k := by
  induction k generalizing st with
  | zero => rfl
  | succ k ih => simp only [noveltyGo]; simp [ih]

private theorem mutationGo_length {σ : Type} (m : Nat) (xs : List Ind) (st : St σ) : (mutationGo m xs st).1.length = xs.length := by
  induction xs generalizing st with
  | nil => rfl
  | cons x xs ih => simp only [mutationGo]; simp [ih]

private theorem crossoverGo_total {σ : Type} (m : Nat) (npop : List Ind) :
    ∀ (n i : Nat) (st : St σ), (n = 0 ∨ i + n < npop.length) →
      ∃ ys st', crossoverGo m npop i n st = some (ys, st') ∧ ys.length = 2 * n := by
  intro n
  induction n with
  | zero => intro i st _; exact ⟨[], st, rfl, rfl⟩
  | succ n ih =>
    intro i st h
    have hlt : i + (n + 1) < npop.length := by omega
    have hne : ¬ npop.length = 0 := by omega
    have hmod : i % npop.length = i := Nat.mod_eq_of_lt (by omega)
    simp only [crossoverGo, hne, if_false, hmod]
    have h1 : i < npop.length := by omega
    have h2 : i + 1 < npop.length := by omega
    rw [List.getElem?_eq_getElem h1, List.getElem?_eq_getElem h2]
    simp only
    generalize (if (floatDecision m st).1 = true then
        (crossInd (floatDecision m st).2.fresh npop[i] npop[i + 1],
          { (floatDecision m st).2 with fresh := (floatDecision m st).2.fresh + 2 })
      else ((npop[i], npop[i + 1]), (floatDecision m st).2)) = r
    obtain ⟨cs, st2⟩ := r
    obtain ⟨ys, st3, hrec, hl⟩ := ih (i + 1) st2 (by omega)
    simp only [hrec]
    exact ⟨_, _, rfl, by simp [hl]; omega⟩

private theorem crossoverStep_total {σ : Type} (m : Nat) (npop : List Ind) (k : Nat) (st : St σ) (hk : k ≤ npop.length) :
    ∃ out st', crossoverStep m npop k st = some (out, st') ∧ out.length = k := by
  obtain ⟨ys, st1, h1, hl⟩ := crossoverGo_total m npop (k / 2) 0 st (by omega)
  unfold crossoverStep
  simp only [h1]
  split
  · rename_i hodd
    have : 0 < npop.length := by omega
    rw [List.getElem?_eq_getElem this]
    exact ⟨_, _, rfl, by simp [hl]; omega⟩
  · exact ⟨_, _, rfl, by omega⟩

mutual
theorem C15_step_count {σ : Type} (src : Source σ) (hs : src.Sound) (cfg : Cfg) : ∀ (s : Step), s.WF → ∀ (it : Iter) (k : Nat) (st : St σ), it.consumed = false → k ≤ it.items.length →
    ∃ out st', apply src cfg s it k st = some (out, st') ∧ out.length = k
  | .identity, _, it, k, st, hf, hk => by
    refine ⟨_, _, rfl, ?_⟩
    rw [Iter.iterate_fresh it hf]; simp; omega
  | .elitism, _, it, k, st, hf, hk => by
    refine ⟨_, _, rfl, ?_⟩
    rw [Iter.iterate_fresh it hf]; simp [sortDesc_length]; omega
  | .novelty, _, it, k, st, _, _ => ⟨_, _, rfl, noveltyGo_length _ _ _⟩
  | .tournament ts wr, hwf, it, k, st, hf, hk => by
    simp only [apply, Iter.iterate_fresh it hf]
    cases k with
    | zero => exact ⟨[], st, by simp [tournamentGo], rfl⟩
    | succ k =>
      have hne : it.items ≠ [] := by intro h; rw [h] at hk; simp at hk
      obtain ⟨tr, r, htr⟩ := tournamentGo_total src hs it.items ts wr hwf hne (k + 1) it.items st.rnd hne
      have := (tournamentGo_sound src it.items it.items ts wr (fun _ h => h) (k + 1) it.items st.rnd tr r (fun _ h => h) htr).1
      simp only [htr]
      exact ⟨_, _, rfl, by simp [this]⟩
  | .lexicase n mins eps, _, it, k, st, hf, hk => by
    simp only [apply, Iter.iterate_fresh it hf]
    obtain ⟨tr, r, htr⟩ := lexicaseGo_total src hs n mins eps k it.items st.rnd hk
    simp only [htr]
    refine ⟨_, _, rfl, ?_⟩
    simp
    exact lexicaseGo_length src htr
  | .mutation m, _, it, k, st, hf, hk => by
    refine ⟨_, _, rfl, ?_⟩
    rw [mutationGo_length, Iter.iterate_fresh it hf]; simp; omega
  | .crossover m, _, it, k, st, hf, hk => by
    simp only [apply, Iter.iterate_fresh it hf]
    exact crossoverStep_total m it.items k st hk
  | .seq ss, hwf, it, k, st, hf, hk => by
    obtain ⟨out, st', h, _, h2⟩ := C15_seq_count src hs cfg ss hwf.2 it k st hf hk
    exact ⟨out, st', by simpa [apply] using h, h2 hwf.1⟩
  | .par ss ws, hwf, it, k, st, hf, hk => by
    obtain ⟨hlen, hpos, hall⟩ := hwf
    obtain ⟨rs, hrs, hrl, hrm, hsum⟩ := C15_ranges_sum ws k hpos
    simp only [apply, Iter.iterate_fresh it hf, hrs]
    have : ¬ ss.length ≠ ws.length := by omega
    simp only [this, if_false]
    obtain ⟨out, st', h, hl⟩ := C15_par_count src hs cfg ss rs it.items hall (by omega)
      (fun p hp => ⟨(hrm p hp).1, by have := (hrm p hp).2; omega⟩) st
    exact ⟨out, st', h, by omega⟩
  | .xpar ss ws, hwf, it, k, st, hf, hk => by
    obtain ⟨hlen, hpos, hall⟩ := hwf
    obtain ⟨rs, hrs, hrl, hrm, hsum⟩ := C15_ranges_sum ws k hpos
    simp only [apply, Iter.iterate_fresh it hf, hrs]
    have : ¬ ss.length ≠ ws.length := by omega
    simp only [this, if_false]
    obtain ⟨out, st', h, hl⟩ := C15_xpar_count src hs cfg ss rs it.items hall (by omega)
      (fun p hp => ⟨(hrm p hp).1, by have := (hrm p hp).2; omega⟩) st
    exact ⟨out, st', h, by omega⟩
theorem C15_seq_count {σ : Type} (src : Source σ) (hs : src.Sound) (cfg : Cfg) : ∀ (ss : List Step), Step.allWF ss → ∀ (it : Iter) (k : Nat) (st : St σ), it.consumed = false →
    k ≤ it.items.length →
    ∃ out st', applySeq src cfg ss it k st = some (out, st') ∧ (ss = [] → out = it.items) ∧ (ss ≠ [] → out.length = k)
  | [], _, it, k, st, hf, _ => ⟨_, _, rfl, fun _ => Iter.iterate_fresh it hf, fun h => absurd rfl h⟩
  | s :: rest, hwf, it, k, st, hf, hk => by
    simp only [applySeq]
    split
    · rename_i hign
      have hrne : rest ≠ [] := by intro h; subst h; simp [Step.anyIgnores] at hign
      obtain ⟨out, st', h, _, h2⟩ := C15_seq_count src hs cfg rest hwf.2 it k st hf hk
      exact ⟨out, st', h, fun h => (by cases h), fun _ => h2 hrne⟩
    · obtain ⟨o, st1, h1, hl1⟩ := C15_step_count src hs cfg s hwf.1 it k st hf hk
      simp only [h1]
      obtain ⟨out, st', h, h2, h3⟩ := C15_seq_count src hs cfg rest hwf.2 (Iter.gen o) k st1 rfl (by simp [Iter.gen]; omega)
      refine ⟨out, st', h, fun h => (by cases h), fun _ => ?_⟩
      by_cases hr : rest = []
      · rw [h2 hr]; simpa [Iter.gen] using hl1
      · exact h3 hr
theorem C15_par_count {σ : Type} (src : Source σ) (hs : src.Sound) (cfg : Cfg) : ∀ (ss : List Step) (rs : List (Nat × Nat)) (npop : List Ind), Step.allWF ss → ss.length = rs.length →
    (∀ p ∈ rs, p.1 ≤ p.2 ∧ p.2 - p.1 ≤ npop.length) → ∀ (st : St σ),
    ∃ out st', applyPar src cfg ss rs npop st = some (out, st') ∧ out.length = (sliceSizes rs).sum
  | [], [], _, _, _, _, st => ⟨[], st, rfl, rfl⟩
  | [], _ :: _, _, _, h, _, _ => by simp at h
  | _ :: _, [], _, _, h, _, _ => by simp at h
  | s :: rest, (a, b) :: rs, npop, hwf, hlen, hrm, st => by
    have hab := hrm (a, b) (by simp)
    simp only [applyPar]
    split
    · rename_i hpos
      obtain ⟨o, st1, h1, hl1⟩ := C15_step_count src hs cfg s hwf.1 (Iter.ofList npop) (b - a) st rfl (by simpa [Iter.ofList] using hab.2)
      simp only [h1]
      obtain ⟨o2, st2, h2, hl2⟩ := C15_par_count src hs cfg rest rs npop hwf.2 (by simpa using hlen)
        (fun p hp => hrm p (List.mem_cons_of_mem _ hp)) st1
      simp only [h2]
      exact ⟨_, _, rfl, by simp [sliceSizes, hl1] ; simp [sliceSizes] at hl2; omega⟩
    · rename_i hz
      obtain ⟨o2, st2, h2, hl2⟩ := C15_par_count src hs cfg rest rs npop hwf.2 (by simpa using hlen)
        (fun p hp => hrm p (List.mem_cons_of_mem _ hp)) st
      exact ⟨o2, st2, h2, by simp [sliceSizes]; simp [sliceSizes] at hl2; omega⟩
theorem C15_xpar_count {σ : Type} (src : Source σ) (hs : src.Sound) (cfg : Cfg) : ∀ (ss : List Step) (rs : List (Nat × Nat)) (npop : List Ind), Step.allWF ss → ss.length = rs.length →
    (∀ p ∈ rs, p.1 ≤ p.2 ∧ p.2 ≤ npop.length) → ∀ (st : St σ),
    ∃ out st', applyXPar src cfg ss rs npop st = some (out, st') ∧ out.length = (sliceSizes rs).sum
  | [], [], _, _, _, _, st => ⟨[], st, rfl, rfl⟩
  | [], _ :: _, _, _, h, _, _ => by simp at h
  | _ :: _, [], _, _, h, _, _ => by simp at h
  | s :: rest, (a, b) :: rs, npop, hwf, hlen, hrm, st => by
    have hab := hrm (a, b) (by simp)
    simp only [applyXPar]
    obtain ⟨o, st1, h1, hl1⟩ := C15_step_count src hs cfg s hwf.1 (Iter.gen ((npop.drop a).take (b - a))) (b - a) st rfl
      (by simp [Iter.gen]; omega)
    simp only [h1]
    obtain ⟨o2, st2, h2, hl2⟩ := C15_xpar_count src hs cfg rest rs npop hwf.2 (by simpa using hlen)
      (fun p hp => hrm p (List.mem_cons_of_mem _ hp)) st1
    simp only [h2]
    exact ⟨_, _, rfl, by simp [sliceSizes, hl1]; simp [sliceSizes] at hl2; omega⟩
end


/-- The three iterable forms, spelled out: a list / `Population` (`oneShot = false`) and a
generator (`oneShot = true`). -/
theorem C15_step_count_forms {σ : Type} (src : Source σ) (hs : src.Sound) (cfg : Cfg) (s : Step) (hwf : s.WF)
    (pop : List Ind) (oneShot : Bool) (k : Nat) (hk : k ≤ pop.length) (st : St σ) :
    ∃ out st', apply src cfg s ⟨pop, oneShot, false⟩ k st = some (out, st') ∧ out.length = k :=
  C15_step_count src hs cfg s hwf ⟨pop, oneShot, false⟩ k st rfl hk

/-- The exact failure set of `compute_ranges`: a non-empty weight vector whose sum is zero. -/
theorem C15_ranges_error (ws : List Nat) (target : Nat) :
    computeRanges ws target = none ↔ (ws.sum = 0 ∧ ws ≠ []) := by
  unfold computeRanges
  split <;> simp_all

/-! ## `EvaluateStep` -/

theorem C15_evaluate_count (it : Iter) (hf : it.consumed = false) : evaluateStep it = it.items := by
  simp [evaluateStep, Iter.iterate_fresh it hf]

/-! ## initialisers -/

theorem C15_init_count (i : Init) (k : Nat) : (initRun i k).length = k := by
  induction i generalizing k with
  | standard => simp [initRun]
  | full => simp [initRun]
  | grow => simp [initRun]
  | pigrow => simp [initRun]; omega
  | inject n b ih =>
    simp only [initRun, List.length_append, List.length_map, List.length_take, List.length_range]
    split
    · rw [ih]; omega
    · simp; omega
  | halfAndHalf a b iha ihb => simp [initRun, iha, ihb]; omega

/-- `InjectInitialPopulationWrapper` with any number `n` of injected programs: the first
`min n k` individuals are the injected ones, in order, and the total is exactly `k`. -/
theorem C15_inject_count (n : Nat) (backup : Init) (k : Nat) :
    (initRun (.inject n backup) k).length = k ∧
      (initRun (.inject n backup) k).take (min n k) = (List.range (min n k)).map Origin.injected := by
  refine ⟨C15_init_count _ k, ?_⟩
  simp only [initRun]
  have hl : ((List.range n).take k).length = min n k := by simp; omega
  rw [List.take_append_of_le_length (by simp; omega)]
  rw [List.take_of_length_le (by simp; omega)]
  congr 1
  apply List.ext_getElem
  · simp; omega
  · intro i h1 h2; simp

/-! ## whole runs -/

theorem C15_gp_generation_size {σ : Type} (src : Source σ) (hs : src.Sound) (cfg : Cfg) (step : Step) (hwf : step.WF)
    (size : Nat) : ∀ (t : Nat) (pop : List Ind) (st : St σ), pop.length = size →
      ∃ gens st', gpGenerations src cfg step size t pop st = some (gens, st') ∧ gens.length = t + 1 ∧
        ∀ g ∈ gens, g.length = size := by
  intro t
  induction t with
  | zero => intro pop st h; exact ⟨[pop], st, rfl, rfl, by simp [h]⟩
  | succ t ih =>
    intro pop st h
    obtain ⟨nxt, st1, h1, hl⟩ := C15_step_count src hs cfg step hwf (Iter.ofList pop) size st rfl (by simp [Iter.ofList, h])
    obtain ⟨gens, st2, h2, hgl, hall⟩ := ih nxt st1 hl
    simp only [gpGenerations, h1, h2]
    refine ⟨_, _, rfl, by simp [hgl], ?_⟩
    intro g hg
    rcases List.mem_cons.mp hg with rfl | hg'
    · exact h
    · exact hall g hg'

/-! ## The pinned tree violated the property (witnesses; the defects are repaired by `fix:` commits)

`Steps.Pinned.*` is the behaviour of the code before the repairs; these are the failing inputs the
check reported on the unrepaired tree. -/

/-- weights `[1, 1, 0]`, population and target 3: the slices held 4 individuals. -/
theorem C15_pinned_ranges_witness :
    ¬ ∀ (ws : List Nat) (n : Nat), 0 < ws.sum → (sliceSizes (Pinned.computeRanges ws n n)).sum = n := by
  intro h
  exact absurd (h [1, 1, 0] 3 (by decide)) (by decide)

/-- `ElitismStep` given a generator of two individuals, asked for two, yielded none. -/
theorem C15_pinned_elitism_witness :
    ¬ ∀ (pop : List Ind) (oneShot : Bool) (k : Nat), k ≤ pop.length → (Pinned.elitism ⟨pop, oneShot, false⟩ k).length = k := by
  intro h
  exact absurd (h [⟨0, 1, []⟩, ⟨1, 2, []⟩] true 2 (by decide)) (by decide)

/-- `InjectInitialPopulationWrapper`: one program, target 2 → 3 individuals; no program → exception. -/
theorem C15_pinned_inject_witness :
    Pinned.injectCount 1 2 = some 3 ∧ Pinned.injectCount 0 2 = none := by decide

/-! ## Non-vacuity: the hypotheses are satisfiable on non-trivial data -/

-- rounded shares 2, 2, 0 over-shoot a target of 3: clamped
example : computeRanges [1, 1, 0] 3 = some [(0, 2), (2, 3), (3, 3)] := by decide
-- the default step at population 10: 5% rounds to 0, the last slice takes everything
example : computeRanges [5, 5, 90] 10 = some [(0, 0), (0, 0), (0, 10)] := by decide
-- under-shoot: shares 1, 1, 1 for a target of 4 (weights 1,1,1 → 1.33 each)
example : computeRanges [1, 1, 1] 4 = some [(0, 1), (1, 2), (2, 4)] := by decide
example : computeRanges [0, 0] 3 = none := by decide

private def exPop : List Ind := [⟨0, 3, [1, 2]⟩, ⟨1, 5, [0, 2]⟩, ⟨2, 5, [3, 1]⟩, ⟨3, 1, [3, 3]⟩]
private def exStep : Step :=
  .par [.elitism, .novelty, .seq [.tournament 2 false, .crossover 1001, .mutation 500]] [1, 1, 2]
private def exSt : St Script := ⟨⟨[1, 2, 3, 0, 1, 2, 3, 1, 1], 0⟩, [0, 999, 500], 0⟩

example : exStep.WF := by simp [exStep, Step.WF, Step.allWF]
example : (apply scripted ⟨2⟩ exStep (Iter.gen exPop) 4 exSt).map (·.1.map (·.id)) = some [1, 1000, 1001, 1002] := by decide
example : (apply scripted ⟨2⟩ (.xpar [.mutation 1001, .crossover 0, .identity] [1, 1, 0]) (Iter.gen exPop) 3 exSt).map (·.1.length)
    = some 3 := by decide
example : initRun (.inject 2 (.halfAndHalf .grow .full)) 5 =
    [.injected 0, .injected 1, .created, .created, .created] := by decide
example : initRun (.inject 0 .standard) 2 = [.created, .created] := by decide
example : (gpGenerations scripted ⟨2⟩ exStep 4 2 exPop exSt).map (·.1.map List.length) = some [4, 4, 4] := by decide

end GEVerif.C15
