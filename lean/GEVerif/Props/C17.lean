/-
  C17 — Selection operators are sound (tournament and lexicase).

  Everything is stated for an ARBITRARY random source (every stream of draws), every population
  (duplicates, ties), every tournament size and every target size; nothing is bounded.

  * `C17_tournament_sound`  — if the selection returns, it ran exactly `k` tournaments, and in each:
                              exactly `tournament_size` participants were drawn, all of them members of
                              the given population, the winner is one of them, and no participant is
                              strictly fitter than the winner.  With and without replacement, any
                              tournament size (also larger than the population);
    `C17_tournament_total`  — it does return (no exception) for every sound source whenever the
                              population is non-empty and the tournament size is at least 1;
    `C17_tournament_step`   — the step's output are those winners (members of the input);
    `C17_tournament_pool_collapses` — OBSERVATION: `candidates` is re-bound to the last participants;
  * `C17_lexicase_sound`    — for each of the `k` selections: the candidates are the population minus
                              the earlier winners, the case order is a permutation of all cases obtained
                              from a fresh `shuffle` at that moment, the winner is one of the candidates
                              and survives the lexicase filter for that order;
    `C17_lexicase_first_case` — in particular the winner is best (or within the epsilon band of the
                              best) on the first case of its order among ALL candidates then available;
    `C17_lexicase_multiplicity` — the output never holds more copies of an individual than the input;
    `C17_lexicase_total`    — it returns for every sound source whenever `k ≤ len`;
    `C17_lexicase_uninformative_case` — a case on which all candidates agree (in the implementation: every candidate is
                              NaN there) can be dropped from the case order, wherever it stands, without changing the survivors;
  * `C17_pinned_lexicase_witness` — the counterexample found on the tree before the `fix:` commit.
-/
import GEVerif.Model.Steps
import GEVerif.Lemmas.Steps
import GEVerif.Props.C18

namespace GEVerif.C17
open GEVerif GEVerif.Steps

/-! ## tournament selection -/

theorem C17_tournament_sound {σ : Type} (src : Source σ) (pop : List Ind) (ts : Nat) (wr : Bool) (k : Nat)
    (s : σ) (tr : List (List Ind × Ind)) (s' : σ)
    (h : tournamentGo src pop ts wr k pop s = some (tr, s')) :
    tr.length = k ∧ ∀ r ∈ tr, r.1.length = ts ∧ r.2 ∈ r.1 ∧ r.2 ∈ pop ∧ (∀ p ∈ r.1, p ∈ pop) ∧
      ∀ p ∈ r.1, p.agg ≤ r.2.agg := by
  obtain ⟨hl, hr⟩ := tournamentGo_sound src pop pop ts wr (fun _ h => h) k pop s tr s' (fun _ h => h) h
  refine ⟨hl, fun r hrm => ?_⟩
  obtain ⟨h1, h2, h3, h4⟩ := hr r hrm
  exact ⟨h1, h2, h3 _ h2, h3, h4⟩

theorem C17_tournament_total {σ : Type} (src : Source σ) (hs : src.Sound) (pop : List Ind) (ts : Nat) (wr : Bool)
    (k : Nat) (s : σ) (hts : 1 ≤ ts) (hne : pop ≠ []) :
    ∃ tr s', tournamentGo src pop ts wr k pop s = some (tr, s') :=
  tournamentGo_total src hs pop ts wr hts hne k pop s hne

/-- The step as a whole (any iterable form): every returned individual is a member of the input
population and won a tournament as above; exactly `k` are returned. -/
theorem C17_tournament_step {σ : Type} (src : Source σ) (cfg : Cfg) (ts : Nat) (wr : Bool) (it : Iter)
    (hf : it.consumed = false) (k : Nat) (st : St σ) (out : List Ind) (st' : St σ)
    (h : apply src cfg (.tournament ts wr) it k st = some (out, st')) :
    out.length = k ∧ ∀ w ∈ out, w ∈ it.items ∧
      ∃ parts : List Ind, parts.length = ts ∧ w ∈ parts ∧ (∀ p ∈ parts, p ∈ it.items) ∧ ∀ p ∈ parts, p.agg ≤ w.agg := by
  simp only [apply, Iter.iterate_fresh it hf] at h
  cases hrec : tournamentGo src it.items ts wr k it.items st.rnd with
  | none => simp [hrec] at h
  | some pr =>
    obtain ⟨tr, r⟩ := pr
    simp only [hrec] at h
    cases h
    obtain ⟨hl, hr⟩ := C17_tournament_sound src it.items ts wr k st.rnd tr r hrec
    refine ⟨by simp [hl], ?_⟩
    intro w hw
    simp only [List.mem_map] at hw
    obtain ⟨rd, hrd, rfl⟩ := hw
    obtain ⟨h1, h2, h3, h4, h5⟩ := hr rd hrd
    exact ⟨h3, rd.1, h1, h2, h4, h5⟩

private theorem tournamentGo_succ {σ : Type} (src : Source σ) {pool : List Ind} {ts : Nat} {wr : Bool} {n : Nat}
    {cands : List Ind} {s : σ} {tr : List (List Ind × Ind)} {s' : σ}
    (h : tournamentGo src pool ts wr (n + 1) cands s = some (tr, s')) :
    ∃ parts s1 w rest, drawN src cands ts s = some (parts, s1) ∧ maxByAgg parts = some w ∧
      tr = (parts, w) :: rest ∧
      tournamentGo src pool ts wr n
        (if wr = true then parts else if (parts.erase w).isEmpty = true then pool else parts.erase w) s1 = some (rest, s') := by
  simp only [tournamentGo] at h
  cases hd : drawN src cands ts s with
  | none => simp [hd] at h
  | some pr =>
    obtain ⟨parts, s1⟩ := pr
    simp only [hd] at h
    cases hw : maxByAgg parts with
    | none => simp [hw] at h
    | some w =>
      simp only [hw] at h
      cases hrec : tournamentGo src pool ts wr n
          (if wr = true then parts else if (parts.erase w).isEmpty = true then pool else parts.erase w) s1 with
      | none => rw [hrec] at h; exact absurd h (by simp)
      | some pr2 =>
        obtain ⟨rest, s2⟩ := pr2
        simp only [hrec] at h
        cases h
        exact ⟨parts, s1, w, rest, rfl, hw, rfl, hrec⟩

/-- OBSERVATION (not a violation of C17 as stated): the code re-binds `candidates` to the
participants of the tournament just played, so with replacement every later tournament draws
only from the participants of the previous one — the pool collapses after the first tournament. -/
theorem C17_tournament_pool_collapses {σ : Type} (src : Source σ) (pool : List Ind) (ts : Nat) :
    ∀ (k : Nat) (cands : List Ind) (s : σ) (tr : List (List Ind × Ind)) (s' : σ),
      tournamentGo src pool ts true k cands s = some (tr, s') →
      (∀ r, tr[0]? = some r → ∀ p ∈ r.1, p ∈ cands) ∧
      ∀ (i : Nat) (r r' : List Ind × Ind), tr[i]? = some r → tr[i + 1]? = some r' → ∀ p ∈ r'.1, p ∈ r.1 := by
  intro k
  induction k with
  | zero =>
    intro cands s tr s' h
    simp [tournamentGo] at h
    obtain ⟨rfl, _⟩ := h
    simp
  | succ k ih =>
    intro cands s tr s' h
    obtain ⟨parts, s1, w, rest, hd, _, rfl, hrec⟩ := tournamentGo_succ src h
    simp only [if_true] at hrec
    obtain ⟨ih0, ih1⟩ := ih parts s1 rest s' hrec
    refine ⟨?_, ?_⟩
    · intro r hr p hp
      simp at hr; subst hr
      exact (drawN_some src hd).2 p hp
    · intro i r r' hr hr' p hp
      cases i with
      | zero =>
        simp at hr hr'
        subst hr
        exact ih0 r' hr' p hp
      | succ i =>
        simp at hr hr'
        exact ih1 i r r' hr hr' p hp

/-! ## lexicase selection -/

private theorem remainingAfter_cons (pop : List Ind) (w : Ind) (ws : List Ind) :
    remainingAfter pop (w :: ws) = remainingAfter (pop.erase w) ws := rfl

theorem C17_lexicase_sound {σ : Type} (src : Source σ) (nCases : Nat) (mins : List Bool) (eps : Bool) :
    ∀ (k : Nat) (pop : List Ind) (s : σ) (tr : List (List Ind × List Nat × Ind)) (s' : σ),
      lexicaseGo src nCases mins eps k pop s = some (tr, s') →
      tr.length = k ∧
      ∀ (i : Nat) (rem : List Ind) (cases : List Nat) (w : Ind), tr[i]? = some (rem, cases, w) →
        rem = remainingAfter pop ((tr.take i).map (·.2.2)) ∧
        (∃ si : σ, cases = (shuffle src (List.range nCases) si).1) ∧
        cases.Perm (List.range nCases) ∧
        w ∈ rem ∧ w ∈ lexFilter eps mins cases rem := by
  intro k
  induction k with
  | zero =>
    intro pop s tr s' h
    simp [lexicaseGo] at h
    obtain ⟨rfl, _⟩ := h
    simp
  | succ k ih =>
    intro pop s tr s' h
    obtain ⟨w0, s2, rest, rfl, hw0, hrec⟩ := lexicaseGo_succ src h
    obtain ⟨hl, hr⟩ := ih (pop.erase w0) s2 rest s' hrec
    refine ⟨by simp [hl], ?_⟩
    intro i rem cases w hi
    cases i with
    | zero =>
      simp at hi
      obtain ⟨rfl, rfl, rfl⟩ := hi
      refine ⟨by simp [remainingAfter], ⟨s, rfl⟩, C18.C18_shuffle_perm src _ s, ?_, hw0⟩
      exact (lexFilter_sublist eps mins _ pop).subset hw0
    | succ i =>
      simp at hi
      obtain ⟨h1, h2, h3, h4, h5⟩ := hr i rem cases w hi
      refine ⟨?_, h2, h3, h4, h5⟩
      rw [h1]
      simp [remainingAfter_cons]

/-- "best (or within the epsilon band) on at least one case among the candidates still available":
on the FIRST case of the order, among all of them.  (With a single candidate left no case is
consulted: it is the only choice.) -/
theorem C17_lexicase_first_case (eps : Bool) (mins : List Bool) (c : Nat) (cs : List Nat) (rem : List Ind) (w : Ind)
    (hlen : 1 < rem.length) (hw : w ∈ lexFilter eps mins (c :: cs) rem) :
    WithinBand eps mins c rem w := by
  have h1 := lexFilter_first eps mins c cs rem w hlen hw
  rw [mem_lexFilterCase] at h1
  obtain ⟨_, hb⟩ := h1
  intro x hx
  cases hm : mins.getD c false with
  | true =>
    rw [hm] at hb
    simp only [if_true] at hb ⊢
    have := bestOn_min c rem x hx
    omega
  | false =>
    rw [hm] at hb
    simp only [Bool.false_eq_true, if_false] at hb ⊢
    have := bestOn_max c rem x hx
    omega

/-- plain lexicase (`epsilon = False`): the winner is best on that case -/
theorem C17_lexicase_first_case_plain (mins : List Bool) (c : Nat) (cs : List Nat) (rem : List Ind) (w : Ind)
    (hlen : 1 < rem.length) (hw : w ∈ lexFilter false mins (c :: cs) rem) :
    ∀ x ∈ rem, if mins.getD c false then compAt c w ≤ compAt c x else compAt c x ≤ compAt c w := by
  intro x hx
  have := C17_lexicase_first_case false mins c cs rem w hlen hw x hx
  simp only [band4, Bool.false_eq_true, if_false] at this
  split at this <;> rename_i hm <;> simp only [hm, if_true, Bool.false_eq_true, if_false] <;> omega

private theorem lexicase_perm {σ : Type} (src : Source σ) (nCases : Nat) (mins : List Bool) (eps : Bool) :
    ∀ (k : Nat) (pop : List Ind) (s : σ) (tr : List (List Ind × List Nat × Ind)) (s' : σ),
      lexicaseGo src nCases mins eps k pop s = some (tr, s') →
      ∃ left, (tr.map (·.2.2) ++ left).Perm pop := by
  intro k
  induction k with
  | zero =>
    intro pop s tr s' h
    simp [lexicaseGo] at h
    obtain ⟨rfl, _⟩ := h
    exact ⟨pop, by simp⟩
  | succ k ih =>
    intro pop s tr s' h
    obtain ⟨w0, s2, rest, rfl, hw0, hrec⟩ := lexicaseGo_succ src h
    obtain ⟨left, hp⟩ := ih (pop.erase w0) s2 rest s' hrec
    have hmem : w0 ∈ pop := (lexFilter_sublist eps mins _ pop).subset hw0
    refine ⟨left, ?_⟩
    simp only [List.map_cons, List.cons_append]
    exact (hp.cons w0).trans (List.perm_cons_erase hmem).symm

/-- Only members of the population, and never more copies of an individual than it contains. -/
theorem C17_lexicase_multiplicity {σ : Type} (src : Source σ) (nCases : Nat) (mins : List Bool) (eps : Bool)
    (k : Nat) (pop : List Ind) (s : σ) (tr : List (List Ind × List Nat × Ind)) (s' : σ)
    (h : lexicaseGo src nCases mins eps k pop s = some (tr, s')) :
    (∀ w ∈ tr.map (·.2.2), w ∈ pop) ∧ ∀ x : Ind, (tr.map (·.2.2)).count x ≤ pop.count x := by
  obtain ⟨left, hp⟩ := lexicase_perm src nCases mins eps k pop s tr s' h
  refine ⟨fun w hw => hp.subset (List.mem_append_left _ hw), fun x => ?_⟩
  have := hp.count_eq x
  rw [List.count_append] at this
  omega

theorem C17_lexicase_total {σ : Type} (src : Source σ) (hs : src.Sound) (nCases : Nat) (mins : List Bool) (eps : Bool)
    (k : Nat) (pop : List Ind) (s : σ) (hk : k ≤ pop.length) :
    ∃ tr s', lexicaseGo src nCases mins eps k pop s = some (tr, s') :=
  lexicaseGo_total src hs nCases mins eps k pop s hk

/-- The step as a whole: its output are the winners of `lexicaseGo` on the input. -/
theorem C17_lexicase_step {σ : Type} (src : Source σ) (cfg : Cfg) (nCases : Nat) (mins : List Bool) (eps : Bool)
    (it : Iter) (hf : it.consumed = false) (k : Nat) (st : St σ) (out : List Ind) (st' : St σ)
    (h : apply src cfg (.lexicase nCases mins eps) it k st = some (out, st')) :
    ∃ tr r, lexicaseGo src nCases mins eps k it.items st.rnd = some (tr, r) ∧ out = tr.map (·.2.2) ∧
      out.length = k ∧ (∀ w ∈ out, w ∈ it.items) ∧ ∀ x : Ind, out.count x ≤ it.items.count x := by
  simp only [apply, Iter.iterate_fresh it hf] at h
  cases hrec : lexicaseGo src nCases mins eps k it.items st.rnd with
  | none => simp [hrec] at h
  | some pr =>
    obtain ⟨tr, r⟩ := pr
    simp only [hrec] at h
    cases h
    obtain ⟨hm1, hm2⟩ := C17_lexicase_multiplicity src nCases mins eps k it.items st.rnd tr r hrec
    exact ⟨tr, r, rfl, rfl, by simp [lexicaseGo_length src hrec], hm1, hm2⟩

/-! ## The pinned tree violated the property (witness; repaired by a `fix:` commit) -/

/-- Before the repair the case order was shuffled once and consumed by the first winner.
Population with case values 0, 0, 1 (minimised), two selections, draws `[0, 1]`: the second
winner is the individual with value 1 although one with value 0 is still available — it survives
the lexicase filter for no order of the cases. -/
theorem C17_pinned_lexicase_witness :
    ∃ (pop : List Ind) (w1 w2 : Ind),
      Pinned.lexicase scripted 1 [true] false 2 pop ⟨[0, 1], 0⟩ = some [w1, w2] ∧
      w2 ∉ lexFilter false [true] [0] (pop.erase w1) :=
  ⟨[⟨0, 0, [0]⟩, ⟨1, 0, [0]⟩, ⟨2, 0, [1]⟩], ⟨0, 0, [0]⟩, ⟨2, 0, [1]⟩, by decide, by decide⟩

/-! ## Non-vacuity -/

private def exPop : List Ind := [⟨0, 1, [0, 2]⟩, ⟨1, 3, [0, 1]⟩, ⟨2, 3, [1, 0]⟩, ⟨3, 0, [2, 2]⟩]

-- tournament of size 3 (without replacement) on 4 individuals: participants 1,2,3 → winner 1 (the
-- FIRST of the two best); the next tournament draws from the remaining participants [2,3] only
example : (tournamentGo scripted exPop 3 false 2 exPop ⟨[1, 2, 3, 0, 1, 1], 0⟩).map (·.1.map fun r => (r.1.map (·.id), r.2.id))
    = some [([1, 2, 3], 1), ([2, 3, 3], 2)] := by decide
-- tournament larger than the population
example : (tournamentGo scripted exPop 6 true 1 exPop ⟨[0, 3, 3, 0, 3, 0], 0⟩).map (·.1.map fun r => (r.1.map (·.id), r.2.id))
    = some [([0, 3, 3, 0, 3, 0], 0)] := by decide
-- lexicase, both cases minimised: a fresh case order per winner ([1,0], [0,1], [1,0], …); individual 3 is
-- worse on both cases than everybody and is selected only when nobody else is left
example : (lexicaseGo scripted 2 [true, true] false 4 exPop ⟨[0, 1, 0], 0⟩).map (·.1.map fun r => (r.2.1, r.2.2.id))
    = some [([1, 0], 2), ([0, 1], 1), ([1, 0], 0), ([1, 0], 3)] := by decide
example : lexFilter false [true, true] [1, 0] exPop = [⟨2, 3, [1, 0]⟩] := by decide
-- epsilon-lexicase keeps everything within the band (MAD of case 0 is 0.5 → band4 = 2)
example : (lexFilter true [true, true] [0] exPop).map (·.id) = [0, 1] := by decide

/-! ## uninformative cases -/

/-- all candidates carry the same value on case `c` -/
def Uninformative (c : Nat) (xs : List Ind) : Prop := ∀ x ∈ xs, ∀ y ∈ xs, compAt c x = compAt c y

theorem Uninformative.sublist {c : Nat} {xs ys : List Ind} (h : Uninformative c xs) (hs : ys.Sublist xs) :
    Uninformative c ys := fun x hx y hy => h x (hs.subset hx) y (hs.subset hy)

private theorem bestOn_const (mn : Bool) (c : Nat) (xs : List Ind) (x : Ind) (hx : x ∈ xs) (h : Uninformative c xs) :
    bestOn mn c xs = compAt c x := by
  cases mn with
  | true =>
    have h1 := bestOn_min c xs x hx
    obtain ⟨y, hy, hye⟩ := bestOn_mem true c xs (List.ne_nil_of_mem hx)
    have := h x hx y hy
    omega
  | false =>
    have h1 := bestOn_max c xs x hx
    obtain ⟨y, hy, hye⟩ := bestOn_mem false c xs (List.ne_nil_of_mem hx)
    have := h x hx y hy
    omega

/-- a case on which all candidates agree filters nothing out (plain and epsilon lexicase) -/
theorem lexFilterCase_uninformative (eps mn : Bool) (c : Nat) (xs : List Ind) (h : Uninformative c xs) :
    lexFilterCase eps mn c xs = xs := by
  unfold lexFilterCase
  apply List.filter_eq_self.2
  intro x hx
  have hb := bestOn_const mn c xs x hx h
  have hband := band4_nonneg eps c xs
  cases mn <;> simp <;> omega

/-- **An uninformative case can be dropped from the case order, wherever it stands**: if all candidates agree on case `c`
(in the implementation: every candidate is NaN there, no comparison tells them apart), the survivors of the lexicase filter
for the order `pre ++ c :: post` are those for `pre ++ post`.  This is the model-side justification of judging a selection
with such a case by the remaining cases. -/
theorem C17_lexicase_uninformative_case (eps : Bool) (mins : List Bool) (c : Nat) (pre post : List Nat) (xs : List Ind)
    (h : Uninformative c xs) :
    lexFilter eps mins (pre ++ c :: post) xs = lexFilter eps mins (pre ++ post) xs := by
  induction pre generalizing xs with
  | nil =>
    simp only [List.nil_append, lexFilter]
    split
    · rw [lexFilterCase_uninformative eps _ c xs h]
    · rename_i hlen
      -- at most one candidate: no case is consulted at all
      cases post with
      | nil => simp [lexFilter]
      | cons p ps => simp [lexFilter, hlen]
  | cons p pre ih =>
    simp only [List.cons_append, lexFilter]
    split
    · exact ih _ (h.sublist (lexFilterCase_sublist _ _ _ _))
    · rfl

example : Uninformative 1 [⟨0, 3, [1, 7]⟩, ⟨1, 2, [0, 7]⟩, ⟨2, 2, [1, 7]⟩] := by
  intro x hx y hy; simp at hx hy; rcases hx with rfl | rfl | rfl <;> rcases hy with rfl | rfl | rfl <;> decide
example : lexFilter false [false, true] [1, 0] [⟨0, 3, [1, 7]⟩, ⟨1, 2, [0, 7]⟩, ⟨2, 2, [1, 7]⟩] =
    lexFilter false [false, true] [0] [⟨0, 3, [1, 7]⟩, ⟨1, 2, [0, 7]⟩, ⟨2, 2, [1, 7]⟩] := by decide

end GEVerif.C17
