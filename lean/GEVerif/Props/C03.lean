/-
  C03 — depth limits are respected (theorems are added below as they are proved).
-/
import GEVerif.Model.Synth

namespace GEVerif.C03
open GEVerif

theorem C03_placeholder : True := trivial

end GEVerif.C03
