/-
  C03 — depth limits are respected and every feasible depth limit is usable.

  Side conditions (all decidable, evaluated per grammar by the harness):
  * `distConsistent g` (Lemmas/Depth.lean): the distance table of the analysed grammar is
    consistent with the class declarations (a directly instantiated class costs one level more
    than each of its field types).  Both depth modes (`g.e = 0` tree depth, `g.e = 1` expansion
    depth) are covered.
  * `dec.kind.depthLimited`: grow, full, PI-grow and the dynamic-SGE decider.
  * `dec.maxDepth < INF`: `INF = 1000000` is the library's "unreachable" distance; a limit at or
    above it makes the budget test `dist ≤ remaining` meaningless for unproductive symbols.
-/
import GEVerif.Model.Synth
import GEVerif.Model.Linear
import GEVerif.Model.TreeOps
import GEVerif.Lemmas.SynM
import GEVerif.Lemmas.Depth
import GEVerif.Lemmas.DepthTotal

namespace GEVerif.C03
open GEVerif GEVerif.Depth

/-! ### 1. Creation respects the limit -/

/-- Main theorem.  Whatever the random source / genotype, the fuel, the type and the context:
if the budget invariant `ctx.depth + dist ty ≤ maxDepth` holds at a call of `create_node`, the
value it returns fits into the remaining budget. -/
theorem C03_create_depth (g : Grammar) (dec : Decider) (fuel : Nat) (ty : Ty) (ctx : Ctx)
    (deps : List (String × Val)) (s s' : SynSt) (v : Val)
    (hc : distConsistent g = true) (hk : dec.kind.depthLimited = true)
    (hD : dec.maxDepth < INF)
    (hinv : ctx.depth + g.distOf ty ≤ dec.maxDepth)
    (h : createNode g dec fuel ty ctx deps s = .ok v s') :
    ctx.depth + v.depth ≤ dec.maxDepth :=
  (depthP_all g dec hc hk hD fuel).1 ty ctx deps s v s' h hinv

/-- The decider only ever returns an alternative that fits the remaining budget: this is what
re-establishes the invariant below an abstract class or a union, with no assumption on the
grammar at all. -/
theorem C03_choose_fits (g : Grammar) (dec : Decider) (key : Ty) (alts : List Ty) (ctx : Ctx)
    (s s' : SynSt) (t : Ty) (hk : dec.kind.depthLimited = true)
    (h : chooseProd g dec key alts ctx s = .ok t s') :
    t ∈ alts ∧ ctx.depth + g.distOf t ≤ dec.maxDepth := by
  obtain ⟨hm, hf⟩ := chooseProd_fits g dec key alts ctx s s' t hk h
  exact ⟨hm, (fits_iff g dec ctx t).1 hf⟩

/-- Expanding an abstract class needs no invariant at the call (the decider filters). -/
theorem C03_create_abstract_depth (g : Grammar) (dec : Decider) (fuel n : Nat) (prods : List Nat)
    (ctx : Ctx) (s s' : SynSt) (v : Val)
    (hc : distConsistent g = true) (hk : dec.kind.depthLimited = true)
    (hD : dec.maxDepth < INF)
    (h : createAbstract g dec fuel n prods ctx s = .ok v s') :
    ctx.depth + v.depth ≤ dec.maxDepth :=
  (depthP_all g dec hc hk hD fuel).2.1 n prods ctx s v s' h

/-! ### 3. Infeasible limits are rejected up-front; feasible ones give the invariant -/

private theorem valid_eq (g : Grammar) (dec : Decider) (hk : dec.kind.depthLimited = true) :
    deciderValid g dec = decide (g.minTreeDepth ≤ dec.maxDepth) := by
  unfold deciderValid
  cases hkind : dec.kind <;> rw [hkind] at hk <;> first | rfl | exact absurd hk (by decide)

/-- `validate()` rejects exactly the limits below the grammar minimum. -/
theorem C03_reject_upfront (g : Grammar) (dec : Decider) (hk : dec.kind.depthLimited = true) :
    deciderValid g dec = false ↔ dec.maxDepth < g.minTreeDepth := by
  rw [valid_eq g dec hk, decide_eq_false_iff_not]; omega

/-- The dynamic-SGE mapping performs that check before touching the genotype or the shared
stream: the error is the library's, and the state is the initial one. -/
theorem C03_reject_upfront_dsge (g : Grammar) (maxDepth fuel : Nat) (dna : DSGEDna)
    (shared : Script) (h : maxDepth < g.minTreeDepth) :
    mapDSGE g maxDepth fuel dna shared = .err .library { src := .scripted shared, dna := dna } := by
  have hv : deciderValid g { kind := .dsge, maxDepth := maxDepth } = false :=
    (C03_reject_upfront g { kind := .dsge, maxDepth := maxDepth } rfl).2 h
  unfold mapDSGE
  simp only [hv, Bool.not_false, if_true]

/-- An accepted limit gives the budget invariant at the root call. -/
theorem C03_valid_gives_invariant (g : Grammar) (dec : Decider)
    (hk : dec.kind.depthLimited = true) (hv : deciderValid g dec = true) :
    (⟨0, 0⟩ : Ctx).depth + g.distOf (.cls g.spec.start) ≤ dec.maxDepth := by
  rw [distOf_start]
  rw [valid_eq g dec hk, decide_eq_true_eq] at hv
  simpa using hv

/-! ### 2. Corollaries: initialisers, genotype mappings, variation -/

theorem C03_random_tree_depth (g : Grammar) (dec : Decider) (fuel : Nat) (s s' : SynSt) (v : Val)
    (hc : distConsistent g = true) (hk : dec.kind.depthLimited = true)
    (hD : dec.maxDepth < INF) (hv : deciderValid g dec = true)
    (h : randomTree g dec fuel s = .ok v s') : v.depth ≤ dec.maxDepth := by
  have := C03_create_depth g dec fuel _ _ _ s s' v hc hk hD
    (C03_valid_gives_invariant g dec hk hv) h
  simpa using this

/-- GE: the genotype is the random source of decider and metahandlers. -/
theorem C03_mapGE_depth (g : Grammar) (dec : Decider) (fuel : Nat) (dna : List Int)
    (expanding : Bool) (s' : SynSt) (v : Val)
    (hc : distConsistent g = true) (hk : dec.kind.depthLimited = true)
    (hD : dec.maxDepth < INF) (hv : deciderValid g dec = true)
    (h : mapGE g dec fuel dna expanding = .ok v s') : v.depth ≤ dec.maxDepth :=
  C03_random_tree_depth g dec fuel _ s' v hc hk hD hv h

/-- structured GE -/
theorem C03_mapSGE_depth (g : Grammar) (dec : Decider) (fuel : Nat) (dna : SGEDna)
    (expanding : Bool) (s' : SynSt) (v : Val)
    (hc : distConsistent g = true) (hk : dec.kind.depthLimited = true)
    (hD : dec.maxDepth < INF) (hv : deciderValid g dec = true)
    (h : mapSGE g dec fuel dna expanding = .ok v s') : v.depth ≤ dec.maxDepth :=
  C03_mapGE_depth g dec fuel _ expanding s' v hc hk hD hv h

/-- dynamic structured GE (the mapping validates the limit itself) -/
theorem C03_mapDSGE_depth (g : Grammar) (maxDepth fuel : Nat) (dna : DSGEDna) (shared : Script)
    (s' : SynSt) (v : Val) (hc : distConsistent g = true) (hD : maxDepth < INF)
    (h : mapDSGE g maxDepth fuel dna shared = .ok v s') : v.depth ≤ maxDepth := by
  unfold mapDSGE at h
  dsimp only at h
  by_cases hv : deciderValid g { kind := .dsge, maxDepth := maxDepth } = true
  · rw [if_neg (by simp [hv])] at h
    exact C03_random_tree_depth g { kind := .dsge, maxDepth := maxDepth } fuel _ s' v hc rfl hD hv h
  · rw [if_pos (by simpa using hv)] at h
    cases h

/-- `tree_mutate`: the child is created afresh at the parent's stored root context. -/
theorem C03_mutate_depth (g : Grammar) (dec : Decider) (fuel : Nat) (i : Val) (s s' : SynSt)
    (c : Val) (hc : distConsistent g = true) (hk : dec.kind.depthLimited = true)
    (hD : dec.maxDepth < INF) (hv : deciderValid g dec = true)
    (hroot : ∀ ctx, i.ctx = some ctx → ctx.depth + g.minTreeDepth ≤ dec.maxDepth)
    (h : treeMutate g dec fuel i s = .ok c s') : c.depth ≤ dec.maxDepth := by
  have hmin : g.minTreeDepth ≤ dec.maxDepth := by
    have := C03_valid_gives_invariant g dec hk hv
    rw [distOf_start] at this; simpa using this
  exact mutateRoot_depth g dec fuel i none s s' c hc hk hD hmin hroot (fun _ h => by cases h) h

/-- `tree_crossover`: each child is a fresh tree at its parent's stored root context or a
sub-value of the other parent. -/
theorem C03_crossover_depth (g : Grammar) (dec : Decider) (fuel : Nat) (p1 p2 : Val)
    (s s' : SynSt) (c1 c2 : Val)
    (hc : distConsistent g = true) (hk : dec.kind.depthLimited = true)
    (hD : dec.maxDepth < INF) (hv : deciderValid g dec = true)
    (hroot1 : ∀ ctx, p1.ctx = some ctx → ctx.depth + g.minTreeDepth ≤ dec.maxDepth)
    (hroot2 : ∀ ctx, p2.ctx = some ctx → ctx.depth + g.minTreeDepth ≤ dec.maxDepth)
    (hp1 : p1.depth ≤ dec.maxDepth) (hp2 : p2.depth ≤ dec.maxDepth)
    (h : treeCrossover g dec fuel p1 p2 s = .ok (c1, c2) s') :
    c1.depth ≤ dec.maxDepth ∧ c2.depth ≤ dec.maxDepth := by
  have hmin : g.minTreeDepth ≤ dec.maxDepth := by
    have := C03_valid_gives_invariant g dec hk hv
    rw [distOf_start] at this; simpa using this
  unfold treeCrossover at h
  rw [SynM.bind_ok] at h
  obtain ⟨a, s1, h1, h⟩ := h
  rw [SynM.bind_ok] at h
  obtain ⟨b, s2, h2, h⟩ := h
  rw [SynM.pure_ok] at h
  obtain ⟨hab, _⟩ := h
  cases hab
  exact ⟨mutateRoot_depth g dec fuel p1 (some p2) s s1 _ hc hk hD hmin hroot1
      (fun _ h => by cases h; exact hp2) h1,
    mutateRoot_depth g dec fuel p2 (some p1) s1 s2 _ hc hk hD hmin hroot2
      (fun _ h => by cases h; exact hp1) h2⟩

/-- Variation under the same limit: parents whose stored root context has depth 0 (every
individual produced by `random_tree` or a genotype mapping) and which respect the limit have
children that respect the limit. -/
theorem C03_variation_depth (g : Grammar) (dec : Decider) (fuel : Nat) (p1 p2 : Val)
    (hc : distConsistent g = true) (hk : dec.kind.depthLimited = true)
    (hD : dec.maxDepth < INF) (hv : deciderValid g dec = true)
    (hroot1 : ∀ ctx, p1.ctx = some ctx → ctx.depth = 0)
    (hroot2 : ∀ ctx, p2.ctx = some ctx → ctx.depth = 0)
    (hp1 : p1.depth ≤ dec.maxDepth) (hp2 : p2.depth ≤ dec.maxDepth) :
    (∀ s s' c, treeMutate g dec fuel p1 s = .ok c s' → c.depth ≤ dec.maxDepth) ∧
    (∀ s s' c1 c2, treeCrossover g dec fuel p1 p2 s = .ok (c1, c2) s' →
      c1.depth ≤ dec.maxDepth ∧ c2.depth ≤ dec.maxDepth) := by
  have hmin : g.minTreeDepth ≤ dec.maxDepth := by
    have := C03_valid_gives_invariant g dec hk hv
    rw [distOf_start] at this; simpa using this
  have r1 : ∀ ctx, p1.ctx = some ctx → ctx.depth + g.minTreeDepth ≤ dec.maxDepth := by
    intro ctx h; rw [hroot1 ctx h]; omega
  have r2 : ∀ ctx, p2.ctx = some ctx → ctx.depth + g.minTreeDepth ≤ dec.maxDepth := by
    intro ctx h; rw [hroot2 ctx h]; omega
  exact ⟨fun s s' c h => C03_mutate_depth g dec fuel p1 s s' c hc hk hD hv r1 h,
    fun s s' c1 c2 h => C03_crossover_depth g dec fuel p1 p2 s s' c1 c2 hc hk hD hv r1 r2 hp1 hp2 h⟩

/-! ### Sequences of variation steps

`tree_mutate` / `tree_crossover` re-enter creation at a context STORED in the parent
(`gengy_synthesis_context`), and crossover may promote an inner node of the other parent to
a root.  The invariant that survives this is hereditary: every stored context inside an
individual still leaves room for the minimum tree of its node (`budgetOK`). -/

/-- Everything `create_node` returns under the budget invariant is `budgetOK`: each node of
class `c` stored at depth `d` has `d + dist c ≤ maxDepth` and `d + depth ≤ maxDepth`. -/
theorem C03_create_budget (g : Grammar) (dec : Decider) (fuel : Nat) (ty : Ty) (ctx : Ctx)
    (deps : List (String × Val)) (s s' : SynSt) (v : Val)
    (hc : distConsistent g = true) (hk : dec.kind.depthLimited = true)
    (hD : dec.maxDepth < INF)
    (hinv : ctx.depth + g.distOf ty ≤ dec.maxDepth)
    (h : createNode g dec fuel ty ctx deps s = .ok v s') :
    budgetOK g dec.maxDepth v = true :=
  (budgetP_all g dec hc hk hD fuel).1 ty ctx deps s v s' h hinv

/-- The individual invariant `IndOK` (respects the limit, `budgetOK`, root context leaves room
for the start symbol) holds for every initial tree and is preserved by both operators. -/
theorem C03_variation_invariant (g : Grammar) (dec : Decider)
    (hc : distConsistent g = true) (hk : dec.kind.depthLimited = true)
    (hD : dec.maxDepth < INF) (hv : deciderValid g dec = true) :
    (∀ fuel s s' v, randomTree g dec fuel s = .ok v s' → IndOK g dec v) ∧
    (∀ fuel p s s' c, IndOK g dec p → treeMutate g dec fuel p s = .ok c s' → IndOK g dec c) ∧
    (∀ fuel p1 p2 s s' c1 c2, IndOK g dec p1 → IndOK g dec p2 →
      treeCrossover g dec fuel p1 p2 s = .ok (c1, c2) s' → IndOK g dec c1 ∧ IndOK g dec c2) := by
  have hmin : g.minTreeDepth ≤ dec.maxDepth := by
    have := C03_valid_gives_invariant g dec hk hv
    rw [distOf_start] at this; simpa using this
  refine ⟨?_, ?_, ?_⟩
  · intro fuel s s' v h
    exact indOK_create g dec fuel ⟨0, 0⟩ s s' v hc hk hD (by simpa using hmin) h
  · intro fuel p s s' c hp h
    exact indOK_mutateRoot g dec fuel p none s s' c hc hk hD hmin hp (fun _ h => by cases h) h
  · intro fuel p1 p2 s s' c1 c2 h1 h2 h
    exact indOK_crossover g dec fuel p1 p2 s s' c1 c2 hc hk hD hmin h1 h2 h

/-- "This stays true after any sequence of mutations and crossovers under the same limit":
every individual reachable from initial trees (any random source or genotype, any fuel) by
any number of `tree_mutate` / `tree_crossover` steps respects the limit. -/
theorem C03_sequence_depth (g : Grammar) (dec : Decider)
    (hc : distConsistent g = true) (hk : dec.kind.depthLimited = true)
    (hD : dec.maxDepth < INF) (hv : deciderValid g dec = true)
    (v : Val) (h : Reachable g dec v) : v.depth ≤ dec.maxDepth := by
  have hmin : g.minTreeDepth ≤ dec.maxDepth := by
    have := C03_valid_gives_invariant g dec hk hv
    rw [distOf_start] at this; simpa using this
  exact (indOK_reachable g dec hc hk hD hmin v h).1

/-! ### 4. Every feasible limit is usable

Further decidable side conditions: `distAttained g` (the distance of an abstract class is
attained by one of its alternatives) and `refinementsUsable g` (no refinement with an empty
choice list, no `ListSizeBetween` on a non-list, no `Dependent(.., VarRange)` — the only source
of `SynthesisException`). -/

/-- With at least one alternative that fits the remaining budget the decider returns a
production for EVERY state: it never hits the empty-candidate `AssertionError` (nor any
other error). -/
theorem C03_choose_total (g : Grammar) (dec : Decider) (key : Ty) (alts : List Ty) (ctx : Ctx)
    (s : SynSt) (hk : dec.kind.depthLimited = true)
    (hfit : ∃ t ∈ alts, ctx.depth + g.distOf t ≤ dec.maxDepth) :
    ∃ t s', chooseProd g dec key alts ctx s = .ok t s' := by
  obtain ⟨t, ht, hf⟩ := hfit
  exact chooseProd_total g dec key alts ctx s hk ⟨t, ht, (fits_iff g dec ctx t).2 hf⟩

/-- ... which is the case at every abstract class reached under the budget invariant, -/
theorem C03_choose_total_abstract (g : Grammar) (dec : Decider) (n : Nat) (prods : List Nat)
    (ctx : Ctx) (s : SynSt) (ha : distAttained g = true) (hk : dec.kind.depthLimited = true)
    (hD : dec.maxDepth < INF) (hreg : g.reg.allNodes.contains (.cls n) = true)
    (halts : g.altsOf n = some prods)
    (hinv : ctx.depth + g.distOf (.cls n) ≤ dec.maxDepth) :
    ∃ t s', chooseProd g dec (.cls n) (prods.map Ty.cls) ctx s = .ok t s' :=
  chooseProd_total g dec _ _ ctx s hk (abstract_has_fit g dec ha hD n prods ctx hreg halts hinv)

/-- ... and at every union (no assumption on the grammar: the minimum is attained). -/
theorem C03_choose_total_union (g : Grammar) (dec : Decider) (ts : List Ty) (ctx : Ctx)
    (s : SynSt) (hk : dec.kind.depthLimited = true) (hD : dec.maxDepth < INF)
    (hinv : ctx.depth + g.distOf (.union ts) ≤ dec.maxDepth) :
    ∃ t s', chooseProd g dec (.union ts) ts ctx s = .ok t s' :=
  chooseProd_total g dec _ _ ctx s hk (union_has_fit g dec hD ts ctx hinv)

/-- Under the budget invariant `create_node` never fails midway because of the depth budget:
whatever error it returns (exhausted model fuel, `ValueError` of an empty integer range,
`KeyError` of a dependent refinement, ...) is neither the `AssertionError` of an empty choice
nor a `SynthesisException`. -/
theorem C03_create_no_assertion (g : Grammar) (dec : Decider) (fuel : Nat) (ty : Ty) (ctx : Ctx)
    (deps : List (String × Val)) (s s' : SynSt) (e : Err)
    (hc : distConsistent g = true) (ha : distAttained g = true)
    (hr : refinementsUsable g = true) (hk : dec.kind.depthLimited = true)
    (hD : dec.maxDepth < INF)
    (hinv : ctx.depth + g.distOf ty ≤ dec.maxDepth) (hty : tyUsable ty = true)
    (h : createNode g dec fuel ty ctx deps s = .err e s') :
    e ≠ .foreign "AssertionError" ∧ e ≠ .synthesis :=
  badErr_false e ((noBadP_all g dec hc ha hr hk hD fuel).1 ty ctx deps s e s' h hinv hty)

/-- An accepted limit is usable by the initialisers and the GE / SGE mappings ... -/
theorem C03_random_tree_no_assertion (g : Grammar) (dec : Decider) (fuel : Nat) (s s' : SynSt)
    (e : Err) (hc : distConsistent g = true) (ha : distAttained g = true)
    (hr : refinementsUsable g = true) (hk : dec.kind.depthLimited = true)
    (hD : dec.maxDepth < INF) (hv : deciderValid g dec = true)
    (h : randomTree g dec fuel s = .err e s') :
    e ≠ .foreign "AssertionError" ∧ e ≠ .synthesis :=
  C03_create_no_assertion g dec fuel _ _ _ s s' e hc ha hr hk hD
    (C03_valid_gives_invariant g dec hk hv) rfl h

theorem C03_mapGE_no_assertion (g : Grammar) (dec : Decider) (fuel : Nat) (dna : List Int)
    (expanding : Bool) (s' : SynSt) (e : Err)
    (hc : distConsistent g = true) (ha : distAttained g = true)
    (hr : refinementsUsable g = true) (hk : dec.kind.depthLimited = true)
    (hD : dec.maxDepth < INF) (hv : deciderValid g dec = true)
    (h : mapGE g dec fuel dna expanding = .err e s') :
    e ≠ .foreign "AssertionError" ∧ e ≠ .synthesis :=
  C03_random_tree_no_assertion g dec fuel _ s' e hc ha hr hk hD hv h

theorem C03_mapSGE_no_assertion (g : Grammar) (dec : Decider) (fuel : Nat) (dna : SGEDna)
    (expanding : Bool) (s' : SynSt) (e : Err)
    (hc : distConsistent g = true) (ha : distAttained g = true)
    (hr : refinementsUsable g = true) (hk : dec.kind.depthLimited = true)
    (hD : dec.maxDepth < INF) (hv : deciderValid g dec = true)
    (h : mapSGE g dec fuel dna expanding = .err e s') :
    e ≠ .foreign "AssertionError" ∧ e ≠ .synthesis :=
  C03_mapGE_no_assertion g dec fuel _ expanding s' e hc ha hr hk hD hv h

/-- ... and by the dynamic-SGE mapping, whose only depth-related failure is the up-front
library error. -/
theorem C03_mapDSGE_no_assertion (g : Grammar) (maxDepth fuel : Nat) (dna : DSGEDna)
    (shared : Script) (s' : SynSt) (e : Err)
    (hc : distConsistent g = true) (ha : distAttained g = true)
    (hr : refinementsUsable g = true) (hD : maxDepth < INF)
    (h : mapDSGE g maxDepth fuel dna shared = .err e s') :
    e ≠ .foreign "AssertionError" ∧ e ≠ .synthesis := by
  unfold mapDSGE at h
  dsimp only at h
  by_cases hv : deciderValid g { kind := .dsge, maxDepth := maxDepth } = true
  · rw [if_neg (by simp [hv])] at h
    exact C03_random_tree_no_assertion g { kind := .dsge, maxDepth := maxDepth } fuel _ s' e
      hc ha hr rfl hD hv h
  · rw [if_pos (by simpa using hv)] at h
    cases h
    exact badErr_false _ rfl

/-- Variation on individuals satisfying `IndOK` (all `Reachable` ones do) never fails midway
because of the depth budget either. -/
theorem C03_variation_no_assertion (g : Grammar) (dec : Decider) (fuel : Nat) (p1 p2 : Val)
    (hc : distConsistent g = true) (ha : distAttained g = true)
    (hr : refinementsUsable g = true) (hk : dec.kind.depthLimited = true)
    (hD : dec.maxDepth < INF) (hv : deciderValid g dec = true)
    (h1 : IndOK g dec p1) (h2 : IndOK g dec p2) :
    (∀ s s' e, treeMutate g dec fuel p1 s = .err e s' →
      e ≠ .foreign "AssertionError" ∧ e ≠ .synthesis) ∧
    (∀ s s' e, treeCrossover g dec fuel p1 p2 s = .err e s' →
      e ≠ .foreign "AssertionError" ∧ e ≠ .synthesis) := by
  have hmin : g.minTreeDepth ≤ dec.maxDepth := by
    have := C03_valid_gives_invariant g dec hk hv
    rw [distOf_start] at this; simpa using this
  constructor
  · intro s s' e h
    exact badErr_false e (mutateRoot_noBad g dec fuel p1 none s s' e hc ha hr hk hD hmin h1 h)
  · intro s s' e h
    unfold treeCrossover at h
    rcases SynM.bind_err _ _ _ _ _ h with h | ⟨a, s1, _, h⟩
    · exact badErr_false e (mutateRoot_noBad g dec fuel p1 (some p2) s s' e hc ha hr hk hD hmin h1 h)
    rcases SynM.bind_err _ _ _ _ _ h with h | ⟨b, s2, _, h⟩
    · exact badErr_false e (mutateRoot_noBad g dec fuel p2 (some p1) s1 s' e hc ha hr hk hD hmin h2 h)
    · exact absurd h (pure_not_err _ _ _ _)

/-- Why `refinementsUsable` excludes `Dependent(.., VarRange)`: the retry loop of `create_node`
removes a production that raised `SynthesisException` and asks the decider again; if the
remaining productions do not fit the budget the decider faces an empty choice.  Witness: with
the grammar `retryG` (minimum depth 1) at the feasible limit 1, draws `[0, 0]` choose `P1`, make
`vars` empty, `VarRange([])` raises, `P1` is removed, and `P2` (distance 2) does not fit:
`AssertionError` midway, although every other hypothesis of `C03_create_no_assertion` holds.
(With the limit 2 the same draws end in the `SynthesisException` of the exhausted loop.) -/
theorem C03_retry_witness :
    distConsistent retryG = true ∧ distAttained retryG = true ∧
    deciderValid retryG ⟨.grow, 1⟩ = true ∧ refinementsUsable retryG = false ∧
    (errOf (randomTree retryG ⟨.grow, 1⟩ 50 (exSt [0, 0])) == some (.foreign "AssertionError")) = true ∧
    (errOf (randomTree retryG ⟨.grow, 2⟩ 50 (exSt [0, 0, 0, 0])) == some .synthesis) = true := by
  decide

/-- The two side conditions on the distance table are not assumptions about a particular
analysis: they hold for EVERY solution of the distance equations (`isFixpoint`, the subject of
C05), given that only abstract classes carry registered alternatives. -/
theorem C03_fixpoint_hypotheses (g : Grammar)
    (hfix : isFixpoint g.spec g.reg g.dist = true) :
    distConsistent g = true ∧ (altsAbstract g = true → distAttained g = true) :=
  ⟨fixpoint_consistent g hfix, fixpoint_attained g hfix⟩

/-! ### Non-vacuity: the hypotheses hold on a concrete analysed grammar with an abstract class,
recursion, a list-of-abstract field and a union; the limit is reached exactly -/

example : distConsistent exG = true := by decide
example : exG.minTreeDepth = 1 := by decide
example : isFixpoint exG.spec exG.reg exG.dist = true ∧ altsAbstract exG = true := by decide
example : distAttained exG = true ∧ refinementsUsable exG = true := by decide
example : deciderValid exG ⟨.grow, 1⟩ = true ∧ deciderValid exG ⟨.grow, 0⟩ = false := by decide
-- frontier: the limit equals the grammar minimum
example : depthOf (randomTree exG ⟨.grow, 1⟩ 50 (exSt [])) = some 1 := by decide
example : depthOf (randomTree exG ⟨.grow, 3⟩ 50 (exSt [1, 1, 0, 3, 0, 0])) = some 3 := by decide
example : depthOf (randomTree exG ⟨.full, 3⟩ 50 (exSt [1, 1, 0, 3, 0, 0])) = some 2 := by decide
example : depthOf (randomTree exG ⟨.pigrow, 3⟩ 50 (exSt [1, 1, 0, 3, 0, 0])) = some 2 := by decide +kernel
example : depthOf (mapGE exG ⟨.grow, 3⟩ 50 [1, 1, 0, 3, 0, 0] true) = some 2 := by decide
example : depthOf (mapDSGE exG 3 50 [] { draws := [1, 1, 0, 3, 0, 0] }) = some 3 := by decide +kernel
example : depthOf (mapDSGE exG 0 50 [] { draws := [] }) = none := by decide

-- an initial tree and a mutant of it are `Reachable`
example : ∃ v, Reachable exG ⟨.grow, 3⟩ v :=
  ⟨_, .mutate 20 _ (exSt [2, 1]) _ _ (.init 20 (exSt [1, 1, 0, 3, 0, 0]) _ _ rfl) rfl⟩

end GEVerif.C03
