/-
  C18 — Random primitives honour their contracts for every random source.

  Property theorems only (helper lemmas are local and marked `private`).
  Everything is stated for an arbitrary source satisfying the `randint` contract
  (`Source.Sound`), then the genotype-backed sources are shown to satisfy that contract
  for every gene list and every `lo ≤ hi`.
-/
import GEVerif.Model.Rand

namespace GEVerif.C18
open GEVerif

/-! ## The sources satisfy the `randint` contract -/

private theorem emod_bounds (v lo hi : Int) (h : lo ≤ hi) :
    lo ≤ v % (hi - lo + 1) + lo ∧ v % (hi - lo + 1) + lo ≤ hi := by
  have hpos : 0 < hi - lo + 1 := by omega
  have h1 := Int.emod_nonneg v (Int.ne_of_gt hpos)
  have h2 := Int.emod_lt_of_pos v hpos
  omega

/-- The harness's scripted source is a sound source (so every theorem below applies to the
runs the correspondence check performs). -/
theorem C18_scripted_sound : scripted.Sound := by
  intro lo hi s h
  simp only [scripted, scriptedRandint, Script.next]
  have := emod_bounds (s.draws.getD s.pos 0 : Nat) lo hi h
  omega

/-- `ge.ListWrapper` / `stackgggp.ListWrapper`: for EVERY gene list (any length, any content,
negative genes included), any cursor and any `lo ≤ hi`, the draw is within bounds. -/
theorem C18_gene_source_sound : geneSource.Sound := by
  intro lo hi s h
  simp only [geneSource, geneRandint]
  exact emod_bounds _ lo hi h

/-- `structured_ge.StructuredListWrapper`, any key. -/
theorem C18_sge_source_sound (key : String) : (⟨sgeRandintKey key⟩ : Source SGESrc).Sound := by
  intro lo hi s h
  simp only [sgeRandintKey]
  exact emod_bounds _ lo hi h

/-- dynamic SGE's bounded draw: every gene, every `lo ≤ hi` (including `lo = hi`). -/
theorem C18_dsge_random_int_bounds (gene lo hi : Int) (h : lo ≤ hi) :
    lo ≤ dsgeRandomInt gene lo hi ∧ dsgeRandomInt gene lo hi ≤ hi := by
  simp only [dsgeRandomInt]
  exact emod_bounds _ lo hi h

/-- and the top of the range is attainable (the pinned code could never return `hi`). -/
theorem C18_dsge_random_int_reaches_max (lo hi : Int) (h : lo ≤ hi) :
    dsgeRandomInt (hi - lo) lo hi = hi := by
  simp only [dsgeRandomInt]
  have : (hi - lo) % (hi - lo + 1) = hi - lo := Int.emod_eq_of_lt (by omega) (by omega)
  omega

/-! ## Derived primitives, for every sound source -/

section
variable {σ : Type} (src : Source σ) (hs : src.Sound)
include hs

/-- `choice` returns a member of the options. -/
theorem C18_choice_mem {α : Type} (xs : List α) (s : σ) (hne : xs ≠ []) :
    ∃ x, (choice src xs s).1 = some x ∧ x ∈ xs := by
  unfold choice
  have hlen : 0 < xs.length := List.length_pos_iff.mpr hne
  have hemp : xs.isEmpty = false := by
    cases xs with
    | nil => exact absurd rfl hne
    | cons _ _ => rfl
  simp only [hemp, Bool.false_eq_true, if_false]
  have hb := hs 0 ((xs.length : Int) - 1) s (by omega)
  obtain ⟨h0, h1⟩ := hb
  simp only [h0, if_true]
  have hlt : (src.randint 0 ((xs.length : Int) - 1) s).1.toNat < xs.length := by omega
  refine ⟨xs[(src.randint 0 ((xs.length : Int) - 1) s).1.toNat], ?_, List.getElem_mem hlt⟩
  exact List.getElem?_eq_getElem hlt

/-- `random_bool` always returns a Boolean. -/
theorem C18_random_bool_total (s : σ) : ∃ b, (randomBool src s).1 = some b := by
  obtain ⟨x, hx, _⟩ := C18_choice_mem src hs [true, false] s (by simp)
  exact ⟨x, hx⟩

end

/-! ### weighted choice -/

private theorem pickAcc_spec (acc : List Nat) (r i : Nat) (h : pickAcc acc r = some i) :
    i < acc.length ∧ r < acc.getD i 0 ∧ ∀ j, j < i → acc.getD j 0 ≤ r := by
  induction acc generalizing i with
  | nil => simp [pickAcc] at h
  | cons a rest ih =>
    simp only [pickAcc] at h
    split at h
    · cases h
      refine ⟨by simp, by simpa, ?_⟩
      intro j hj; omega
    · rename_i hra
      cases hp : pickAcc rest r with
      | none => simp [hp] at h
      | some k =>
        simp [hp] at h
        subst h
        obtain ⟨h1, h2, h3⟩ := ih k hp
        refine ⟨by simp; omega, by simpa using h2, ?_⟩
        intro j hj
        cases j with
        | zero => simp; omega
        | succ j => simpa using h3 j (by omega)

private theorem pickAcc_some_of_lt_last (acc : List Nat) (r : Nat) (h : r < acc.getLastD 0) :
    ∃ i, pickAcc acc r = some i := by
  induction acc with
  | nil => simp at h
  | cons a rest ih =>
    simp only [pickAcc]
    split
    · exact ⟨0, rfl⟩
    · rename_i hra
      cases rest with
      | nil => simp at h; omega
      | cons b rest' =>
        have : r < (b :: rest').getLastD 0 := by simpa [List.getLastD] using h
        obtain ⟨i, hi⟩ := ih this
        exact ⟨i + 1, by simp [hi]⟩

/-- scaled prefix sums, unfolded -/
private theorem accScaled_go_getD (den : Nat) (ns : List Nat) (run i : Nat) (hi : i < ns.length) :
    (accScaled.go den run ns).getD i 0 = (run + (ns.take (i + 1)).sum) * 100000 / den := by
  induction ns generalizing run i with
  | nil => simp at hi
  | cons n rest ih =>
    cases i with
    | zero => simp [accScaled.go]
    | succ i =>
      simp only [accScaled.go, List.getD_cons_succ]
      rw [ih (run + n) i (by simpa using hi)]
      simp [List.take, Nat.add_assoc]

private theorem accScaled_go_length (den : Nat) (ns : List Nat) (run : Nat) :
    (accScaled.go den run ns).length = ns.length := by
  induction ns generalizing run with
  | nil => rfl
  | cons n rest ih => simp [accScaled.go, ih]

/-- An option whose weight is zero has an empty slice of the draw range: if index `i` is picked
for a draw `r`, its weight is positive. -/
theorem C18_weighted_pick_positive (den : Nat) (ns : List Nat) (r i : Nat)
    (h : pickAcc (accScaled den ns) r = some i) : 0 < ns.getD i 0 := by
  obtain ⟨hlen, hlt, hprev⟩ := pickAcc_spec _ _ _ h
  unfold accScaled at hlen hlt hprev
  rw [accScaled_go_length] at hlen
  rw [accScaled_go_getD den ns 0 i hlen] at hlt
  apply Nat.pos_of_ne_zero
  intro hz
  cases i with
  | zero =>
    have : (ns.take 1).sum = 0 := by
      cases ns with
      | nil => rfl
      | cons n rest => simp at hz; simp [hz]
    simp [this] at hlt
  | succ k =>
    have hk := hprev k (by omega)
    rw [accScaled_go_getD den ns 0 k (by omega)] at hk
    have hsum : (ns.take (k + 1 + 1)).sum = (ns.take (k + 1)).sum := by
      rw [List.take_add_one (i := k + 1)]
      have : ns[k + 1]? = some 0 := by
        rw [List.getD_eq_getElem?_getD, List.getElem?_eq_getElem hlen] at hz
        rw [List.getElem?_eq_getElem hlen]
        simpa using hz
      simp [this]
    rw [hsum] at hlt
    omega

/-- `choice_weighted` never returns an option of zero weight when some weight is positive
(i.e. the scaled total is positive), and it always returns some option — for every sound
source. -/
theorem C18_choice_weighted_sound {σ : Type} (src : Source σ) (hs : src.Sound)
    (den : Nat) (ns : List Nat) (s : σ) (hpos : 0 < (accScaled den ns).getLastD 0) :
    ∃ i, (choiceWeightedIdx src (accScaled den ns) ns.length s).1 = some i ∧
      i < ns.length ∧ 0 < ns.getD i 0 := by
  unfold choiceWeightedIdx
  have hne : ¬ (accScaled den ns).getLastD 0 = 0 := by omega
  simp only [hne, if_false]
  obtain ⟨h0, h1⟩ := hs 0 (((accScaled den ns).getLastD 0 : Nat) - 1 : Int) s (by omega)
  simp only [h0, if_true]
  have hlt : (src.randint 0 (((accScaled den ns).getLastD 0 : Nat) - 1 : Int) s).1.toNat
      < (accScaled den ns).getLastD 0 := by omega
  obtain ⟨i, hi⟩ := pickAcc_some_of_lt_last _ _ hlt
  refine ⟨i, hi, ?_, C18_weighted_pick_positive den ns _ i hi⟩
  have := (pickAcc_spec _ _ _ hi).1
  unfold accScaled at this
  rwa [accScaled_go_length] at this

/-- With no positive weight at all the repaired code falls back to a uniform choice and still
returns a member. -/
theorem C18_choice_weighted_all_zero {σ : Type} (src : Source σ) (hs : src.Sound)
    (acc : List Nat) (n : Nat) (s : σ) (hz : acc.getLastD 0 = 0) (hn : 0 < n) :
    ∃ i, (choiceWeightedIdx src acc n s).1 = some i ∧ i < n := by
  unfold choiceWeightedIdx
  simp only [hz, if_true]
  have : ¬ n = 0 := by omega
  simp only [this, if_false]
  obtain ⟨h0, h1⟩ := hs 0 ((n : Int) - 1) s (by omega)
  have hlt : (src.randint 0 ((n : Int) - 1) s).1.toNat < n := by omega
  exact ⟨_, by simp [h0, hlt], hlt⟩

/-- Proportionality: the set of draws that select option `i` is the half-open interval
`[acc_{i-1}, acc_i)`, whose size is the scaled weight increment of option `i`. -/
theorem C18_weighted_slice (acc : List Nat) (r i : Nat) :
    pickAcc acc r = some i ↔
      (i < acc.length ∧ r < acc.getD i 0 ∧ ∀ j, j < i → acc.getD j 0 ≤ r) := by
  constructor
  · exact pickAcc_spec acc r i
  · intro ⟨hlen, hlt, hprev⟩
    induction acc generalizing i with
    | nil => simp at hlen
    | cons a rest ih =>
      simp only [pickAcc]
      cases i with
      | zero => simp at hlt; simp [hlt]
      | succ k =>
        have h0 := hprev 0 (by omega)
        simp at h0
        have : ¬ r < a := by omega
        simp only [this, if_false]
        have := ih k (by simpa using hlen) (by simpa using hlt)
          (fun j hj => by simpa using hprev (j + 1) (by omega))
        simp [this]

/-! ### shuffle and pop_random -/

private theorem swapAt_perm {α : Type} (xs : List α) (i j : Nat) : (swapAt xs i j).Perm xs := by
  unfold swapAt
  split
  · rename_i a b ha hb
    obtain ⟨hi, hai⟩ := List.getElem?_eq_some_iff.mp ha
    obtain ⟨hj, hbj⟩ := List.getElem?_eq_some_iff.mp hb
    subst hai hbj
    exact List.set_set_perm hi hj
  · exact List.Perm.refl _

private theorem shuffleGo_perm {σ α : Type} (src : Source σ) (n : Nat) (xs : List α) (s : σ) :
    (shuffleGo src n xs s).1.Perm xs := by
  induction n generalizing xs s with
  | zero => exact List.Perm.refl _
  | succ n ih =>
    simp only [shuffleGo]
    exact (ih _ _).trans (swapAt_perm _ _ _)

/-- `shuffle` returns a permutation of its argument — for every source whatsoever. -/
theorem C18_shuffle_perm {σ α : Type} (src : Source σ) (xs : List α) (s : σ) :
    (shuffle src xs s).1.Perm xs := shuffleGo_perm src _ xs s

/-- `pop_random` removes exactly the returned element: the returned item together with the
remaining list is a permutation of the original, and the list is one shorter. -/
theorem C18_pop_random_removes {σ α : Type} (src : Source σ) (hs : src.Sound)
    (xs : List α) (s : σ) (hne : xs ≠ []) :
    ∃ item rest, (popRandom src xs s).1 = some (item, rest) ∧
      (item :: rest).Perm xs ∧ rest.length + 1 = xs.length := by
  unfold popRandom
  have hlast : xs.getLast? = some (xs.getLast hne) := List.getLast?_eq_some_getLast hne
  rw [hlast]
  simp only
  have hxs : xs.dropLast ++ [xs.getLast hne] = xs := List.dropLast_concat_getLast hne
  have hlen : xs.dropLast.length + 1 = xs.length := by
    have := congrArg List.length hxs; simpa using this
  have hperm0 : (xs.getLast hne :: xs.dropLast).Perm xs := by
    have : (xs.getLast hne :: xs.dropLast).Perm (xs.dropLast ++ [xs.getLast hne]) :=
      (List.perm_append_singleton _ _).symm
    rwa [hxs] at this
  obtain ⟨h0, h1⟩ := hs 0 (xs.dropLast.length : Int) s (by omega)
  obtain ⟨ri⟩ := src
  simp only at h0 h1 ⊢
  generalize ri 0 (xs.dropLast.length : Int) s = dr at h0 h1
  obtain ⟨i, s'⟩ := dr
  simp only at h0 h1 ⊢
  split
  · exact ⟨_, _, rfl, hperm0, hlen⟩
  · rename_i hneq
    have hlt : i.toNat < xs.dropLast.length := by omega
    rw [List.getElem?_eq_getElem hlt]
    refine ⟨_, _, rfl, ?_, by simpa using hlen⟩
    refine List.Perm.trans ?_ hperm0
    -- item' :: rest.set k item  ~  item :: rest
    generalize i.toNat = k at hlt
    generalize xs.getLast hne = item
    generalize xs.dropLast = rest at hlt
    induction rest generalizing k with
    | nil => simp at hlt
    | cons y ys ih =>
      cases k with
      | zero => simpa using List.Perm.swap _ _ _
      | succ k =>
        simp only [List.getElem_cons_succ, List.set_cons_succ]
        have := ih k (by simpa using hlt)
        exact (List.Perm.swap _ _ _).trans ((this.cons y).trans (List.Perm.swap _ _ _))

/-! ### the deciders' bounded integer draw -/

/-- `BaseDecider.random_int` stays within `[lo, hi]` for every width (narrow, exactly 1000,
1001, 5000, platform limits), every exponent bound `E` and every sound source, and always
returns. -/
theorem C18_decider_random_int_bounds {σ : Type} (src : Source σ) (hs : src.Sound)
    (E : Nat) (lo hi : Int) (s : σ) (h : lo ≤ hi) :
    ∃ v, (deciderRandomInt src E lo hi s).1 = some v ∧ lo ≤ v ∧ v ≤ hi := by
  have hrb := C18_random_bool_total src hs
  have hs' := hs lo hi s h
  obtain ⟨ri⟩ := src
  unfold deciderRandomInt
  simp only at hs' ⊢
  split
  · rename_i hw
    generalize ri 0 10 s = d1
    obtain ⟨n, s1⟩ := d1
    simp only
    generalize ri 0 (E : Int) s1 = d2
    obtain ⟨e, s2⟩ := d2
    simp only
    obtain ⟨b, hb⟩ := hrb s2
    have hpos : 0 < (hi - lo) / 2 + 1 := by omega
    have e1 := Int.emod_nonneg (n ^ e.toNat) (Int.ne_of_gt hpos)
    have e2 := Int.emod_lt_of_pos (n ^ e.toNat) hpos
    generalize (n ^ e.toNat) % ((hi - lo) / 2 + 1) = extra at e1 e2
    generalize randomBool ⟨ri⟩ s2 = rb at hb
    obtain ⟨ob, s3⟩ := rb
    simp only at hb ⊢
    subst hb
    cases b
    · exact ⟨_, rfl, by omega, by omega⟩
    · exact ⟨_, rfl, by omega, by omega⟩
  · exact ⟨_, rfl, hs'⟩

/-! ## Non-vacuity: concrete instances of the hypotheses -/

example : (choice scripted [10, 20, 30] ⟨[7], 0⟩).1 = some 20 := by decide
example : accScaled 4 [0, 1, 3, 0] = [0, 25000, 100000, 100000] := by decide
example : pickAcc (accScaled 4 [0, 1, 3, 0]) 0 = some 1 := by decide
example : pickAcc (accScaled 4 [0, 1, 3, 0]) 99999 = some 2 := by decide
example : (shuffle scripted [1, 2, 3, 4] ⟨[1, 0, 1], 0⟩).1 = [3, 4, 1, 2] := by decide
example : (deciderRandomInt scripted 4 0 5000 ⟨[10, 4, 0], 0⟩).1 = some 4997 := by decide
example : (deciderRandomInt scripted 4 0 5000 ⟨[10, 4, 1], 0⟩).1 = some 3 := by decide
example : (geneRandint 3 3 ⟨[-7, 12], 0⟩).1 = 3 := by decide

end GEVerif.C18
