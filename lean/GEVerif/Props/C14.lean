/-
  C14 — Searches terminate and stop at the first budget check after the budget is met.

  Statement (properties.jsonl): a search with an evaluation budget n always terminates, and it
  stops at the first budget check at which at least n evaluations have been made: the total is at
  least n and less than n plus the number of individuals evaluated between two checks (one for
  random search and (1+1), the neighbourhood size for hill climbing, the population size for GP).
  A target-fitness budget stops the search at the first check at which the best fitness is within
  tolerance of the target, and a disjunction of budgets stops as soon as either member does.

  Model: `Model/Eval.lean` — `search b iters fuel i s` is `while not b.is_done(): iteration i`;
  `fuel` only bounds the number of checks so that the function is total: "terminates" is the
  statement that some fuel suffices, "never terminates" that none does.

  FULL STATEMENT for GP (NOT provable for the code as it stands — see the witness):

      ∀ pop n t0 init iters, 1 ≤ n → 1 ≤ pop → (Algo.gp pop).Shape init iters →
        ∃ fuel, runSearch (.gp pop) (.evaluations n) t0 init iters fuel ≠ none

  `GeneticProgramming` re-presents a population produced by an arbitrary step; a step that
  produces no new individual (e.g. `ElitismStep()` alone) performs no evaluation, so the counter
  never moves.  Proved instead: `C14_search_stops_partial` (under `Progress`: every generation
  evaluates at least one new individual; for hill climbing: at least one mutation) and
  `C14_gp_nonterminating_witness` (the negation of the full statement).
-/
import GEVerif.Model.Eval
import GEVerif.Lemmas.Search

namespace GEVerif.C14
open GEVerif.Eval

/-! ## Every budget: the loop stops exactly at the first check at which the budget is met -/

/-- The state at budget check `j` (of a run not stopped before). -/
abbrev stateAt (iters : Nat → Iter) (s0 : SearchState) (j : Nat) : SearchState := stateFrom iters 0 s0 j

/-- For EVERY budget (evaluations, target, any nesting of `AnyOf`), every sequence of iterations
and every start state: the loop returns at check `m` iff the budget is met at check `m` and at no
earlier check. -/
theorem C14_stops_at_first_done (b : Budget) (iters : Nat → Iter) (fuel : Nat) (s0 : SearchState)
    (m : Nat) (s : SearchState) :
    search b iters fuel 0 s0 = some (m, s) ↔
      (m < fuel ∧ s = stateAt iters s0 m ∧ b.isDone s = true ∧
        ∀ j, j < m → b.isDone (stateAt iters s0 j) = false) := by
  rw [search_eq_some_iff]
  constructor
  · rintro ⟨m', hm, h1, h2, h3, h4⟩
    have : m = m' := by omega
    subst this
    exact ⟨h1, h2, h3, h4⟩
  · rintro ⟨h1, h2, h3, h4⟩
    exact ⟨m, by omega, h1, h2, h3, h4⟩

/-- More checks never change the answer. -/
theorem C14_fuel_irrelevant (b : Budget) (iters : Nat → Iter) (fuel fuel' : Nat) (s0 : SearchState)
    (m : Nat) (s : SearchState) (h : search b iters fuel 0 s0 = some (m, s)) (hf : fuel ≤ fuel') :
    search b iters fuel' 0 s0 = some (m, s) := by
  rw [C14_stops_at_first_done] at h ⊢
  exact ⟨by omega, h.2⟩

/-! ## Evaluation budgets -/

private theorem exists_first (P : Nat → Prop) (d : Nat) (hd : ∃ k, k ≤ d ∧ P k) :
    ∃ m, m ≤ d ∧ P m ∧ ∀ j, j < m → ¬ P j := by
  induction d with
  | zero =>
    obtain ⟨k, hk, hp⟩ := hd
    have : k = 0 := by omega
    subst this
    exact ⟨0, Nat.le_refl _, hp, by intro j hj; omega⟩
  | succ d ih =>
    by_cases h : ∃ k, k ≤ d ∧ P k
    · obtain ⟨m, hm, hp, hfirst⟩ := ih h
      exact ⟨m, by omega, hp, hfirst⟩
    · obtain ⟨k, hk, hp⟩ := hd
      have hkd : k = d + 1 := by
        by_cases hle : k ≤ d
        · exact absurd ⟨k, hle, hp⟩ h
        · omega
      subst hkd
      refine ⟨d + 1, Nat.le_refl _, hp, ?_⟩
      intro j hj hpj
      exact h ⟨j, by omega, hpj⟩

private theorem count_lower (iters : Nat → Iter) (s0 : SearchState)
    (hk : ∀ i, 1 ≤ (iters i).evals) (j : Nat) : s0.count + j ≤ (stateAt iters s0 j).count := by
  induction j with
  | zero => simp [stateAt, stateFrom]
  | succ j ih =>
    have := stateFrom_count_succ iters 0 s0 j
    have := hk (0 + j)
    simp only [stateAt] at ih ⊢
    omega

/-- `stops_first`.  If every iteration performs between 1 and `B` evaluations (and the start state
has fewer than `n + B`), the loop with `EvaluationBudget(n)` terminates; it stops at a check
`m ≤ n`, the first one at which the counter has reached `n`, and there `n ≤ total < n + B`. -/
theorem C14_stops_first (n B : Nat) (iters : Nat → Iter) (s0 : SearchState)
    (hk : ∀ i, 1 ≤ (iters i).evals ∧ (iters i).evals ≤ B) (h0 : s0.count < n + B) :
    ∃ m s, m ≤ n - s0.count ∧
      (∀ fuel, m < fuel → search (.evaluations n) iters fuel 0 s0 = some (m, s)) ∧
      n ≤ s.count ∧ s.count < n + B ∧ ∀ j, j < m → (stateAt iters s0 j).count < n := by
  have hlow := count_lower iters s0 (fun i => (hk i).1)
  obtain ⟨m, hm, hp, hfirst⟩ := exists_first (fun j => n ≤ (stateAt iters s0 j).count) (n - s0.count)
    ⟨n - s0.count, Nat.le_refl _, by have := hlow (n - s0.count); omega⟩
  refine ⟨m, stateAt iters s0 m, hm, ?_, hp, ?_, ?_⟩
  · intro fuel hf
    rw [C14_stops_at_first_done]
    refine ⟨hf, rfl, by simpa [Budget.isDone] using hp, ?_⟩
    intro j hj
    have := hfirst j hj
    simpa [Budget.isDone] using this
  · cases m with
    | zero => simpa [stateAt, stateFrom] using h0
    | succ m =>
      have h1 := hfirst m (by omega)
      have h2 := stateFrom_count_succ iters 0 s0 m
      have h3 := (hk (0 + m)).2
      simp only [stateAt] at h1 ⊢
      omega
  · intro j hj
    have := hfirst j hj
    omega

/-- What must be known about the iterations beyond the shape the code guarantees: GP needs every
generation to evaluate at least one new individual, hill climbing at least one mutation. -/
def Progress (a : Algo) (iters : Nat → Iter) : Prop :=
  match a with
  | .gp _ => ∀ i, 1 ≤ (iters i).evals
  | .hillClimbing m => 1 ≤ m
  | _ => True

/-- All four algorithms with `EvaluationBudget(n)`, `n ≥ 1`: the search terminates, at a check
`m ≤ n`, the first one with at least `n` evaluations, and `n ≤ total < n + bound`, where `bound`
is 1 for random search and (1+1) (so the total is exactly `n`), the neighbourhood size for hill
climbing and the population size for GP.  (`_partial`: under `Progress`.) -/
theorem C14_search_stops_partial (a : Algo) (n : Nat) (hn : 1 ≤ n) (t0 : Tracker) (init : Iter)
    (iters : Nat → Iter) (hshape : a.Shape init iters) (hprog : Progress a iters) :
    ∃ m s res, m ≤ n ∧
      (∀ fuel, m < fuel → runSearch a (.evaluations n) t0 init iters fuel = some (m, s, res)) ∧
      n ≤ s.count ∧ s.count < n + a.bound ∧
      ∀ j, j < m → (stateAt iters (a.start t0 init) j).count < n := by
  have hk : ∀ i, 1 ≤ (iters i).evals ∧ (iters i).evals ≤ a.bound := by
    intro i
    cases a with
    | randomSearch => have := (hshape i).2; simp only [Algo.bound]; omega
    | onePlusOne => have := (hshape i).2; simp only [Algo.bound]; omega
    | hillClimbing mu =>
      have hmu : 1 ≤ mu := hprog
      simp only [Algo.bound]
      cases i with
      | zero => have := hshape.1.2; omega
      | succ i => have := (hshape.2 i).2; omega
    | gp pop =>
      have h1 : 1 ≤ (iters i).evals := hprog i
      have := (hshape.2 i).2
      simp only [Algo.bound]; omega
  have h0 : (a.start t0 init).count < n + a.bound := by
    cases a with
    | gp pop =>
      have := hshape.1.2
      simp only [Algo.start, SearchState.step, Algo.bound]; omega
    | randomSearch => simp only [Algo.start]; omega
    | onePlusOne => simp only [Algo.start]; omega
    | hillClimbing mu => simp only [Algo.start]; omega
  obtain ⟨m, s, hm, hrun, h1, h2, h3⟩ := C14_stops_first n a.bound iters (a.start t0 init) hk h0
  refine ⟨m, s, s.tracker.best?, by omega, ?_, h1, h2, h3⟩
  intro fuel hf
  simp [runSearch, hrun fuel hf]

/-- Random search and (1+1) perform exactly `n` evaluations. -/
theorem C14_unit_step_exact (a : Algo) (ha : a = .randomSearch ∨ a = .onePlusOne) (n : Nat) (hn : 1 ≤ n)
    (t0 : Tracker) (init : Iter) (iters : Nat → Iter) (hshape : a.Shape init iters) :
    ∃ s res, (∀ fuel, n < fuel → runSearch a (.evaluations n) t0 init iters fuel = some (n, s, res)) ∧
      s.count = n := by
  have hprog : Progress a iters := by rcases ha with rfl | rfl <;> trivial
  obtain ⟨m, s, res, hm, hrun, h1, h2, h3⟩ := C14_search_stops_partial a n hn t0 init iters hshape hprog
  have hb : a.bound = 1 := by rcases ha with rfl | rfl <;> rfl
  have hcount : s.count = n := by omega
  -- the stop index equals the count because every iteration adds exactly one
  have hevals : ∀ i, (iters i).evals = 1 := by
    intro i; rcases ha with rfl | rfl <;> exact (hshape i).2
  have hcnt : ∀ j, (stateAt iters (a.start t0 init) j).count = j := by
    intro j
    induction j with
    | zero => rcases ha with rfl | rfl <;> rfl
    | succ j ih =>
      have := stateFrom_count_succ iters 0 (a.start t0 init) j
      have := hevals (0 + j)
      simp only [stateAt] at ih ⊢
      omega
  have hs := hrun (m + 1) (by omega)
  simp only [runSearch, Option.map_eq_some_iff] at hs
  obtain ⟨⟨k, s'⟩, hsearch, heq⟩ := hs
  simp only [Prod.mk.injEq] at heq
  obtain ⟨rfl, rfl, _⟩ := heq
  have := ((C14_stops_at_first_done _ _ _ _ _ _).mp hsearch).2.1
  have hmn : k = n := by rw [this, hcnt] at hcount; exact hcount
  subst hmn
  exact ⟨s', res, hrun, hcount⟩

/-- A loop whose iterations perform no evaluation never meets an evaluation budget it has not
already met: no amount of fuel makes it stop. -/
theorem C14_no_progress_never_stops (n : Nat) (iters : Nat → Iter) (s0 : SearchState)
    (hz : ∀ i, (iters i).evals = 0) (h0 : s0.count < n) :
    ∀ fuel, search (.evaluations n) iters fuel 0 s0 = none := by
  intro fuel
  rw [search_eq_none_iff]
  intro j hjf
  clear hjf
  have hc : (stateFrom iters 0 s0 j).count = s0.count := by
    induction j with
    | zero => rfl
    | succ j ih =>
      rw [stateFrom_count_succ, ih, hz]; rfl
  simp [Budget.isDone, hc, h0]

/-- `GeneticProgramming(step=ElitismStep(), population_size=2, budget=EvaluationBudget(3))`: every
generation re-presents the two (already evaluated) elite individuals; the counter stays at 2 and
the search never returns.  This refutes the full statement given at the top of the file. -/
theorem C14_gp_nonterminating_witness :
    ¬ (∀ (pop n : Nat) (t0 : Tracker) (init : Iter) (iters : Nat → Iter), 1 ≤ n → 1 ≤ pop →
        (Algo.gp pop).Shape init iters →
        ∃ fuel, runSearch (.gp pop) (.evaluations n) t0 init iters fuel ≠ none) := by
  intro hall
  let pop : List Reg := [⟨0, 5, 5⟩, ⟨1, 3, 3⟩]
  obtain ⟨fuel, hne⟩ := hall 2 3 (.single none) ⟨pop, 2, []⟩ (fun _ => ⟨pop, 0, []⟩) (by omega) (by omega)
    ⟨⟨rfl, rfl⟩, fun _ => ⟨rfl, by simp⟩⟩
  apply hne
  simp only [runSearch, Option.map_eq_none_iff]
  exact C14_no_progress_never_stops 3 _ _ (fun _ => rfl) (by decide) fuel

/-! ## Target-fitness budgets -/

/-- `TargetFitness(v).is_done` holds exactly when there is a best individual whose (first)
fitness component is within tolerance of `v`. -/
theorem C14_target_isDone_iff (v : Int) (s : SearchState) :
    (Budget.target v).isDone s = true ↔
      ∃ b, s.tracker = .single (some b) ∧ (b.comp - v).natAbs < tolerance.toNat := by
  cases s with
  | mk c t =>
    cases t with
    | multi f => simp [Budget.isDone]
    | single ob =>
      cases ob with
      | none => simp [Budget.isDone]
      | some b => simp [Budget.isDone]

/-- A target-fitness budget stops the search at the first check at which the best fitness is
within tolerance of the target — at that check and at no earlier one. -/
theorem C14_target_stops (v : Int) (iters : Nat → Iter) (fuel : Nat) (s0 : SearchState) (m : Nat)
    (s : SearchState) :
    search (.target v) iters fuel 0 s0 = some (m, s) ↔
      (m < fuel ∧ s = stateAt iters s0 m ∧
        (∃ b, s.tracker = .single (some b) ∧ (b.comp - v).natAbs < tolerance.toNat) ∧
        ∀ j, j < m → ¬ ∃ b, (stateAt iters s0 j).tracker = .single (some b) ∧
          (b.comp - v).natAbs < tolerance.toNat) := by
  rw [C14_stops_at_first_done, C14_target_isDone_iff]
  constructor
  · rintro ⟨h1, h2, h3, h4⟩
    refine ⟨h1, h2, h3, ?_⟩
    intro j hj hex
    have := h4 j hj
    rw [(C14_target_isDone_iff v _).mpr hex] at this
    cases this
  · rintro ⟨h1, h2, h3, h4⟩
    refine ⟨h1, h2, h3, ?_⟩
    intro j hj
    cases hd : (Budget.target v).isDone (stateAt iters s0 j) with
    | false => rfl
    | true => exact absurd ((C14_target_isDone_iff v _).mp hd) (h4 j hj)

/-! ## Disjunction of budgets -/

/-- `AnyOf(a, b)` stops at the first check at which `a` or `b` is met. -/
theorem C14_anyOf_or (a b : Budget) (iters : Nat → Iter) (fuel : Nat) (s0 : SearchState) (m : Nat)
    (s : SearchState) :
    search (.anyOf a b) iters fuel 0 s0 = some (m, s) ↔
      (m < fuel ∧ s = stateAt iters s0 m ∧ (a.isDone s = true ∨ b.isDone s = true) ∧
        ∀ j, j < m → a.isDone (stateAt iters s0 j) = false ∧ b.isDone (stateAt iters s0 j) = false) := by
  rw [C14_stops_at_first_done]
  simp only [Budget.isDone, Bool.or_eq_true, Bool.or_eq_false_iff]

/-- … hence as soon as either member does: if `a` alone would stop at check `ma`, then `AnyOf(a, b)`
and `AnyOf(b, a)` stop at some check `m ≤ ma`. -/
theorem C14_anyOf_no_later (a b : Budget) (iters : Nat → Iter) (fuel : Nat) (s0 : SearchState) (ma : Nat)
    (sa : SearchState) (ha : search a iters fuel 0 s0 = some (ma, sa)) :
    (∃ m s, m ≤ ma ∧ search (.anyOf a b) iters fuel 0 s0 = some (m, s)) ∧
    (∃ m s, m ≤ ma ∧ search (.anyOf b a) iters fuel 0 s0 = some (m, s)) := by
  obtain ⟨hf, hs, hd, _⟩ := (C14_stops_at_first_done _ _ _ _ _ _).mp ha
  have hex : ∃ k, k ≤ ma ∧ ((a.isDone (stateAt iters s0 k) || b.isDone (stateAt iters s0 k)) = true) :=
    ⟨ma, Nat.le_refl _, by rw [← hs, hd]; rfl⟩
  obtain ⟨m, hm, hp, hfirst⟩ := exists_first _ ma hex
  have hp' : a.isDone (stateAt iters s0 m) = true ∨ b.isDone (stateAt iters s0 m) = true := by
    simpa using hp
  have hfirst' : ∀ j, j < m → a.isDone (stateAt iters s0 j) = false ∧ b.isDone (stateAt iters s0 j) = false := by
    intro j hj
    have := hfirst j hj
    simpa using this
  constructor
  · exact ⟨m, _, hm, (C14_anyOf_or a b iters fuel s0 m _).mpr ⟨by omega, rfl, hp', hfirst'⟩⟩
  · exact ⟨m, _, hm, (C14_anyOf_or b a iters fuel s0 m _).mpr
      ⟨by omega, rfl, hp'.symm, fun j hj => (hfirst' j hj).symm⟩⟩

/-- … and exactly at the earlier of the two when both would stop. -/
theorem C14_anyOf_min (a b : Budget) (iters : Nat → Iter) (fuel : Nat) (s0 : SearchState)
    (ma mb : Nat) (sa sb : SearchState)
    (ha : search a iters fuel 0 s0 = some (ma, sa)) (hb : search b iters fuel 0 s0 = some (mb, sb)) :
    search (.anyOf a b) iters fuel 0 s0 = some (if ma ≤ mb then (ma, sa) else (mb, sb)) := by
  obtain ⟨hfa, hsa, hda, hfirsta⟩ := (C14_stops_at_first_done _ _ _ _ _ _).mp ha
  obtain ⟨hfb, hsb, hdb, hfirstb⟩ := (C14_stops_at_first_done _ _ _ _ _ _).mp hb
  by_cases hle : ma ≤ mb
  · simp only [hle, if_true]
    exact (C14_anyOf_or a b iters fuel s0 ma sa).mpr
      ⟨hfa, hsa, Or.inl hda, fun j hj => ⟨hfirsta j hj, hfirstb j (by omega)⟩⟩
  · simp only [hle, if_false]
    exact (C14_anyOf_or a b iters fuel s0 mb sb).mpr
      ⟨hfb, hsb, Or.inr hdb, fun j hj => ⟨hfirsta j (by omega), hfirstb j hj⟩⟩

/-! ## Non-vacuity -/

-- hill climbing, 3 mutations, budget 5: checks see 0,1,4,7 — stops at the 4th check with 7 < 5 + 3
example : (runSearch (.hillClimbing 3) (.evaluations 5) (.single none) ⟨[], 0, []⟩
    (fun i => if i = 0 then ⟨[⟨0, 1, 1⟩], 1, []⟩ else ⟨[⟨3 * i, 0, 0⟩, ⟨3 * i + 1, 0, 0⟩, ⟨3 * i + 2, 0, 0⟩], 3, []⟩) 9).map
    (fun r => (r.1, r.2.1.count)) = some (3, 7) := by decide
example : (Algo.hillClimbing 3).Shape ⟨[], 0, []⟩
    (fun i => if i = 0 then ⟨[⟨0, 1, 1⟩], 1, []⟩ else ⟨[⟨3 * i, 0, 0⟩, ⟨3 * i + 1, 0, 0⟩, ⟨3 * i + 2, 0, 0⟩], 3, []⟩) :=
  ⟨⟨rfl, rfl⟩, fun _ => ⟨rfl, rfl⟩⟩
-- GP, population 4, one new individual per generation, budget 6: 4,5,6 — stops at the third check
example : (runSearch (.gp 4) (.evaluations 6) (.single none)
    ⟨[⟨0, 1, 1⟩, ⟨1, 2, 2⟩, ⟨2, 0, 0⟩, ⟨3, 1, 1⟩], 4, []⟩
    (fun i => ⟨[⟨1, 2, 2⟩, ⟨0, 1, 1⟩, ⟨3, 1, 1⟩, ⟨4 + i, 0, 0⟩], 1, []⟩) 9).map
    (fun r => (r.1, r.2.1.count)) = some (2, 6) := by decide
-- the elitism-only GP run of the witness: 50 checks, still running
example : runSearch (.gp 2) (.evaluations 3) (.single none) ⟨[⟨0, 5, 5⟩, ⟨1, 3, 3⟩], 2, []⟩
    (fun _ => ⟨[⟨0, 5, 5⟩, ⟨1, 3, 3⟩], 0, []⟩) 50 = none := by decide
-- target 30 (units of 1e-5, tolerance 10): best components 0, 12, 27 — stops when 27 is best
example : (runSearch .randomSearch (.target 30) (.single none) ⟨[], 0, []⟩
    (fun i => ⟨[⟨i, 12 * i + 3 * (i / 2), 12 * i + 3 * (i / 2)⟩], 1, []⟩) 9).map (fun r => (r.1, r.2.1.count)) =
    some (3, 3) := by decide
-- AnyOf(evaluations 5, target 30) stops at the earlier of the two (check 3), either way round
example : (runSearch .randomSearch (.anyOf (.evaluations 5) (.target 30)) (.single none) ⟨[], 0, []⟩
    (fun i => ⟨[⟨i, 12 * i + 3 * (i / 2), 12 * i + 3 * (i / 2)⟩], 1, []⟩) 9).map (fun r => r.1) = some 3 := by decide
example : (runSearch .randomSearch (.anyOf (.target 1000) (.evaluations 2)) (.single none) ⟨[], 0, []⟩
    (fun i => ⟨[⟨i, 12 * i, 12 * i⟩], 1, []⟩) 9).map (fun r => r.1) = some 2 := by decide

end GEVerif.C14
