/-
  C13 — Fitness is computed from the phenotype, once, and counted honestly.

  Statement (properties.jsonl): an individual's recorded fitness for a problem always equals what
  the problem's fitness function returns for that individual's program, and the aggregate used for
  comparisons is that value when maximising, its negation when minimising and, for multi-objective
  problems without a user-supplied aggregate, the sum of the components with the minimised ones
  negated.  Fitness is computed at most once per individual and problem, and the evaluation
  counter equals the number of fitness-function invocations.  Evaluating a population with the
  parallel evaluator yields exactly the same fitness values on the same individuals as the
  sequential evaluator, regardless of how workers are scheduled.

  Model: `Model/Eval.lean`.  Individuals live in a heap, a batch is a list of addresses (so the
  same object may be presented twice, and may already carry a fitness); the state records the
  heap, the evaluator's counter and the log of fitness-function invocations.  The invariant
  `Honest` (Lemmas/Evaluators.lean) is the property; the theorems show it is preserved by every
  call sequence, for every population, every number of problems sharing the individuals, and —
  for the parallel evaluator — every completion order of the workers.
  Not modelled: OS scheduling and pickling inside `pathos` (abstracted to the completion order),
  garbage collection of problems (the fitness store is a weak dictionary).
-/
import GEVerif.Model.Eval
import GEVerif.Lemmas.Evaluators

namespace GEVerif.C13
open GEVerif.Eval

/-! ## The aggregate -/

/-- Single objective: the component is the value, the aggregate is the value when maximising and
its negation when minimising. -/
theorem C13_aggregate_single (mn : Bool) (v : Int) :
    (ProblemKind.single mn).evaluate [v] = ⟨if mn then -v else v, [v]⟩ := rfl

/-- Multi-objective, default aggregate: the components are what the fitness function returned and
the aggregate is their sum with the minimised ones negated. -/
theorem C13_aggregate_default (mins : List Bool) (raw : List Int) (hlen : mins.length = raw.length) :
    ((ProblemKind.multi mins).evaluate raw).comps = raw ∧
    ((ProblemKind.multi mins).evaluate raw).agg =
      (List.zipWith (fun c (m : Bool) => if m then -c else c) raw mins).sum := by
  refine ⟨rfl, ?_⟩
  simp only [ProblemKind.evaluate]
  induction raw generalizing mins with
  | nil => cases mins <;> simp [signedSum]
  | cons c cs ih =>
    cases mins with
    | nil => simp at hlen
    | cons m ms =>
      simp only [signedSum, List.zipWith_cons_cons, List.sum_cons]
      rw [ih ms (by simpa using hlen)]

/-- … in particular the plain sum when everything is maximised and its negation when everything
is minimised. -/
theorem C13_aggregate_default_uniform (b : Bool) (raw : List Int) :
    ((ProblemKind.multi (List.replicate raw.length b)).evaluate raw).agg =
      if b then -raw.sum else raw.sum := by
  simp only [ProblemKind.evaluate]
  induction raw with
  | nil => cases b <;> simp [signedSum]
  | cons c cs ih =>
    simp only [List.length_cons, List.replicate_succ, signedSum, List.sum_cons, ih]
    cases b <;> simp <;> omega

/-- A user-supplied aggregate is applied to the components. -/
theorem C13_aggregate_user (g : List Int → Int) (raw : List Int) :
    (ProblemKind.multiUser g).evaluate raw = ⟨g raw, raw⟩ := rfl

/-! ## Parallel = sequential, for every completion order -/

/-- `parallel_eq_sequential`.  For every heap (evaluated / new individuals mixed), every batch
(duplicates, a single individual, the empty batch) and EVERY order in which the pool's workers
complete, the parallel evaluator leaves exactly the heap (all fitness values, on the same
individuals) and the counter that the sequential evaluator leaves; the invocation logs are
permutations of each other. -/
theorem C13_parallel_eq_sequential (P : Problem) (p : Nat) (batch order : List Nat) (st : EvalState)
    (hperm : ValidOrder p batch order st) :
    (parEval P p batch order st).store = (seqEval P p batch st).store ∧
    (parEval P p batch order st).count = (seqEval P p batch st).count ∧
    (parEval P p batch order st).log.Perm (seqEval P p batch st).log := by
  rw [seqEval_pending P p batch st]
  unfold parEval
  by_cases hemp : (pending p st.store batch).isEmpty = true
  · have : pending p st.store batch = [] := List.isEmpty_iff.mp hemp
    simp [this, seqEval]
  · simp only [hemp, Bool.false_eq_true, if_false]
    obtain ⟨hspec, hnd⟩ := pendingGo_spec p st.store batch []
    obtain ⟨hres, hlogp⟩ := poolMap_perm
      (fun i => P.fitnessOf ((st.store[i]?.map (·.pheno)).getD 0)) (pending p st.store batch) order hperm
    obtain ⟨t1, t2, t3, t4⟩ := applyResults_seq P p st.store (pending p st.store batch) st st rfl rfl hnd
      (fun i hi => by
        obtain ⟨_, ind, h1, h2⟩ := hspec i hi
        exact ⟨ind, h1, h2, h1⟩)
    simp only at t1 t2 t3 t4
    rw [hres]
    refine ⟨t1, t2, ?_⟩
    simp only [t3, t4]
    exact List.Perm.append_left _ (hlogp.map _)

/-! ## Honest evaluation, for every sequence of evaluator calls -/

private theorem honest_of_perm (Ps : List Problem) (s s' : EvalState) (hs : s'.store = s.store)
    (hc : s'.count = s.count) (hl : s'.log.Perm s.log) (h : Honest Ps s) : Honest Ps s' := by
  refine ⟨by rw [hl.length_eq, hc]; exact h.count_eq, hl.nodup_iff.mpr h.once, ?_, ?_⟩
  · intro p i hm
    obtain ⟨ind, h1, h2⟩ := h.logged_cached p i (hl.mem_iff.mp hm)
    exact ⟨ind, by rw [hs]; exact h1, h2⟩
  · intro i ind p f P hi
    rw [hs] at hi
    exact h.faithful i ind p f P hi

private theorem cached_of_store_eq (s s' : EvalState) (hs : s'.store = s.store) (p i : Nat)
    (h : Cached s p i) : Cached s' p i := by
  obtain ⟨ind, h1, h2⟩ := h
  exact ⟨ind, by rw [hs]; exact h1, h2⟩

private theorem runCall_inv (Ps : List Problem) (st : EvalState) (c : Call)
    (hv : match c with | .par p batch order => ValidOrder p batch order st | .seq _ _ => True)
    (h : Honest Ps st) :
    Honest Ps (runCall Ps st c) ∧ (runCall Ps st c).store.length = st.store.length ∧
    (∀ j : Nat, (runCall Ps st c).store[j]?.map (·.pheno) = st.store[j]?.map (·.pheno)) ∧
    (∀ q j, Cached st q j → Cached (runCall Ps st c) q j) ∧
    (Ps[c.problem]? ≠ none → ∀ i ∈ c.batch, i < st.store.length → Cached (runCall Ps st c) c.problem i) := by
  cases c with
  | seq p batch =>
    simp only [runCall, Call.problem, Call.batch]
    cases hP : Ps[p]? with
    | none => exact ⟨h, rfl, fun _ => rfl, fun _ _ hc => hc, fun hne => absurd rfl hne⟩
    | some P =>
      exact ⟨seqEval_honest Ps P p hP batch st h, seqEval_length P p batch st,
        seqEval_pheno P p batch st, fun q j hc => seqEval_cached_mono P p batch st q j hc,
        fun _ i hi hlt => seqEval_cached_batch P p batch st i hi hlt⟩
  | par p batch order =>
    simp only [runCall, Call.problem, Call.batch]
    cases hP : Ps[p]? with
    | none => exact ⟨h, rfl, fun _ => rfl, fun _ _ hc => hc, fun hne => absurd rfl hne⟩
    | some P =>
      obtain ⟨e1, e2, e3⟩ := C13_parallel_eq_sequential P p batch order st hv
      refine ⟨honest_of_perm Ps _ _ e1 e2 e3 (seqEval_honest Ps P p hP batch st h), ?_, ?_, ?_, ?_⟩
      · rw [e1]; exact seqEval_length P p batch st
      · intro j; rw [e1]; exact seqEval_pheno P p batch st j
      · intro q j hc
        exact cached_of_store_eq _ _ e1 q j (seqEval_cached_mono P p batch st q j hc)
      · intro _ i hi hlt
        exact cached_of_store_eq _ _ e1 p i (seqEval_cached_batch P p batch st i hi hlt)

/-- `eval_honest`.  Start from any honest state (e.g. a population some of whose members already
carry honestly computed fitness values) and make ANY sequence of evaluator calls — sequential or
parallel (any completion orders), any problems (several problems sharing the individuals), any
batches (duplicates, already-evaluated individuals, re-presented individuals).  Then the state
is still honest: every recorded fitness is the problem's function of that individual's
phenotype, the counter equals the number of fitness-function invocations, no (individual,
problem) pair was evaluated twice; phenotypes are untouched; and every individual that was
presented has a fitness for the problem it was presented to. -/
theorem C13_eval_honest (Ps : List Problem) (st : EvalState) (calls : List Call)
    (h0 : Honest Ps st) (hv : ValidCalls Ps st calls) :
    Honest Ps (runCalls Ps st calls) ∧
    (runCalls Ps st calls).store.length = st.store.length ∧
    (∀ j : Nat, (runCalls Ps st calls).store[j]?.map (·.pheno) = st.store[j]?.map (·.pheno)) ∧
    (∀ q j, Cached st q j → Cached (runCalls Ps st calls) q j) ∧
    (∀ c ∈ calls, Ps[c.problem]? ≠ none → ∀ i ∈ c.batch, i < st.store.length →
      Cached (runCalls Ps st calls) c.problem i) := by
  induction calls generalizing st with
  | nil => exact ⟨h0, rfl, fun _ => rfl, fun _ _ h => h, by simp⟩
  | cons c cs ih =>
    obtain ⟨hvc, hvs⟩ := hv
    obtain ⟨r1, r2, r3, r4, r5⟩ := runCall_inv Ps st c hvc h0
    obtain ⟨i1, i2, i3, i4, i5⟩ := ih (runCall Ps st c) r1 hvs
    simp only [runCalls, List.foldl_cons] at i1 i2 i3 i4 i5 ⊢
    refine ⟨i1, by rw [i2, r2], fun j => by rw [i3, r3], fun q j hc => i4 q j (r4 q j hc), ?_⟩
    intro c' hc' hne i hi hlt
    rcases List.mem_cons.mp hc' with rfl | hmem
    · exact i4 _ _ (r5 hne i hi hlt)
    · exact i5 c' hmem hne i hi (by rw [r2]; exact hlt)

/-- `seq_eval`.  The statement of the property for a population of new individuals with
phenotypes `phenos`, spelled out: after any sequence of evaluator calls,
(1) every recorded fitness equals `problem.evaluate(ff(phenotype))` of that very individual,
(2) the evaluation counter equals the number of fitness-function invocations,
(3) each (problem, individual) pair was evaluated at most once,
(4) every individual presented to a problem has a fitness for it. -/
theorem C13_seq_eval (Ps : List Problem) (phenos : List Int) (calls : List Call)
    (hv : ValidCalls Ps (fresh phenos) calls) :
    let st := runCalls Ps (fresh phenos) calls
    (∀ (i : Nat) (ind : Indiv) (p : Nat) (f : Fitness) (P : Problem) (ph : Int),
      st.store[i]? = some ind → phenos[i]? = some ph → ind.fitness? p = some f → Ps[p]? = some P →
        f = P.kind.evaluate (P.ff ph)) ∧
    st.log.length = st.count ∧
    st.log.Nodup ∧
    (∀ c ∈ calls, Ps[c.problem]? ≠ none → ∀ i ∈ c.batch, i < phenos.length →
      ∃ ind, st.store[i]? = some ind ∧ ind.has c.problem = true) := by
  have hfresh : Honest Ps (fresh phenos) := by
    refine ⟨rfl, List.nodup_nil, by simp [fresh], ?_⟩
    intro i ind p f P hi hf
    simp only [fresh, List.getElem?_map, Option.map_eq_some_iff] at hi
    obtain ⟨ph, _, rfl⟩ := hi
    simp [Indiv.fitness?, cacheGet] at hf
  obtain ⟨h1, _, h3, _, h5⟩ := C13_eval_honest Ps (fresh phenos) calls hfresh hv
  refine ⟨?_, h1.count_eq, h1.once, ?_⟩
  · intro i ind p f P ph hi hph hf hP
    have := h1.faithful i ind p f P hi hf hP
    have hp := h3 i
    rw [hi] at hp
    simp only [fresh, List.getElem?_map, hph, Option.map_some, Option.some.injEq] at hp
    rw [this, Problem.fitnessOf, hp]
  · intro c hc hne i hi hlt
    exact h5 c hc hne i hi (by simpa [fresh] using hlt)

/-- An individual that already has a fitness is never re-evaluated, by either evaluator, and an
empty batch is a no-op (the pinned `ParallelEvaluator` re-evaluated, re-counted and raised). -/
theorem C13_already_evaluated_untouched (P : Problem) (p : Nat) (batch order : List Nat) (st : EvalState)
    (hall : ∀ i ∈ batch, Cached st p i) :
    seqEval P p batch st = st ∧ parEval P p batch order st = st := by
  have hpend : ∀ seen, pendingGo p st.store seen batch = [] := by
    intro seen
    induction batch generalizing seen with
    | nil => rfl
    | cons i rest ih =>
      obtain ⟨ind, hi, hh⟩ := hall i List.mem_cons_self
      rw [pendingGo_cons_skip p st.store seen i rest ind hi (Or.inl hh)]
      exact ih (fun j hj => hall j (List.mem_cons_of_mem _ hj)) seen
  constructor
  · rw [seqEval_pending, pending, hpend]; rfl
  · simp [parEval, pending, hpend]

/-! ## Non-vacuity -/

/-- two problems sharing three individuals: maximise `x`; minimise `x`, maximise `x*x` (default
aggregate `-x + x*x`) -/
private def demoPs : List Problem :=
  [⟨.single false, fun x => [x]⟩, ⟨.multi [true, false], fun x => [x, x * x]⟩]

-- batch with a duplicate and, second time round, already-evaluated individuals; then the other
-- problem on the same individuals, in parallel, workers completing in the order 2,0,1
example : (runCalls demoPs (fresh [3, -2, 5])
      [.seq 0 [0, 0, 1], .seq 0 [1, 2, 0], .par 1 [2, 1, 2, 0] [2, 0, 1]]).count = 6 := by decide
example : (runCalls demoPs (fresh [3, -2, 5])
      [.seq 0 [0, 0, 1], .seq 0 [1, 2, 0], .par 1 [2, 1, 2, 0] [2, 0, 1]]).log =
    [(0, 0), (0, 1), (0, 2), (1, 0), (1, 2), (1, 1)] := by decide
example : ((runCalls demoPs (fresh [3, -2, 5])
      [.seq 0 [0, 0, 1], .seq 0 [1, 2, 0], .par 1 [2, 1, 2, 0] [2, 0, 1]]).store.map (·.cache)) =
    [[(0, ⟨3, [3]⟩), (1, ⟨6, [3, 9]⟩)], [(0, ⟨-2, [-2]⟩), (1, ⟨6, [-2, 4]⟩)], [(0, ⟨5, [5]⟩), (1, ⟨20, [5, 25]⟩)]] := by
  decide
example : ValidCalls demoPs (fresh [3, -2, 5])
    [.seq 0 [0, 0, 1], .seq 0 [1, 2, 0], .par 1 [2, 1, 2, 0] [2, 0, 1]] := by
  refine ⟨trivial, trivial, ?_, trivial⟩
  show List.Perm [2, 0, 1] [0, 1, 2]
  decide
example : (ProblemKind.multi [true, false, true]).evaluate [4, 10, 1] = ⟨5, [4, 10, 1]⟩ := by decide
example : (ProblemKind.single true).evaluate [7] = ⟨-7, [7]⟩ := by decide

end GEVerif.C13
