/-
  C02 — refinements (metahandlers) hold on every value the library produces.

  `sat mh deps v` (Model/Tree.lean) is the documented predicate of refinement `mh`, dependent
  refinements being read against the actual sibling values `deps`.  `validate mh v`
  (Lemmas/WellTyped.lean) transcribes the metahandlers' own `validate` methods, with
  `IntervalRange.validate` AS REPAIRED (`minimum_length <= length <= maximum_length and
  v[1] <= maximum_top_limit`; the pinned code has `<` in the first and last comparison and
  rejects what `generate` produces at `length == minimum_length` and `end == maximum_top_limit`).

  Hypotheses (decidable, `Bool`-valued):
  * `mhOK mh`: a `StringSizeBetween` alphabet is a list of one-character strings (`list(options)`
    of a Python `str` always is);
  * `depsOK deps ty`: the sibling read by a dependent LIST-SIZE refinement is not a negative
    integer.  For `n < 0` the documented predicate "length = n" is unsatisfiable: the model
    (`resolveDep`: `listSize n.toNat n.toNat`) returns the empty list, see
    `C02_negative_size_witness`; in the real code `ListSizeBetweenWithoutListOperations(n, n)`
    does the same and `ListSizeBetween(n, n).generate` trips its own `assert len(li) == size`.
-/
import GEVerif.Lemmas.WellTyped
import GEVerif.Lemmas.StackMachine
import GEVerif.Lemmas.StrOps
import GEVerif.Props.C18

namespace GEVerif.C02
open GEVerif GEVerif.WellTyped

/-- Every refinement's generator produces a value satisfying the refinement — for every
refinement (dependent ones included), base type, decider, fuel, synthesis context (i.e. position:
top level, inside a list, inside a union, under a dependent refinement), sibling values and
state.  No hypothesis on the grammar is needed. -/
theorem C02_generate_sat (g : Grammar) (dec : Decider) (fuel : Nat) (t : Ty) (mh : MH) (ctx : Ctx)
    (deps : List (String × Val)) (s s' : SynSt) (v : Val)
    (hok : mhOK mh = true) (hdeps : depsOK deps (.ann t mh) = true)
    (h : createNode g dec fuel (.ann t mh) ctx deps s = .ok v s') : sat mh deps v = true :=
  gen_sat g dec fuel t mh ctx deps s s' v hok hdeps h

/-- Dependent refinements are evaluated against the ACTUAL sibling values: the value created
under `Dependent(name, f)` is the value created under the concrete refinement `f(siblings)`,
and satisfies both readings. -/
theorem C02_dependent_resolved (g : Grammar) (dec : Decider) (fuel : Nat) (t : Ty) (mh : MH)
    (ctx : Ctx) (deps : List (String × Val)) (s s' : SynSt) (v : Val)
    (hdep : mh.isDep = true) (hdeps : depsOK deps (.ann t mh) = true)
    (h : createNode g dec fuel (.ann t mh) ctx deps s = .ok v s') :
    ∃ mh' s1, resolveDep mh deps s = .ok mh' s1 ∧ mh'.isDep = false ∧
      sat mh' deps v = true ∧ sat mh deps v = true ∧ validate mh' v = true := by
  obtain ⟨fuel', mh', s1, v1, ctx', hres, hv1, rfl⟩ :=
    createNode_dep_inv g dec fuel t mh ctx deps s s' v hdep h
  obtain ⟨hnd', _, _, hsat'⟩ := resolveDep_spec mh mh' deps s s1 hdep hres
  have hok : mhOK mh = true := by cases mh <;> first | rfl | simp [MH.isDep] at hdep
  have h1 := gen_sat_nodep g dec fuel' t mh' ctx' deps s1 s' v1 hnd'
    (resolveDep_mhOK mh mh' deps s s1 hres hok) hv1
  refine ⟨mh', s1, hres, hnd', ?_, ?_, ?_⟩
  · rw [sat_setCtx]; exact h1
  · rw [sat_setCtx]; exact hsat' t v1 hdeps h1
  · rw [validate_setCtx]; exact validate_of_sat mh' deps v1 hnd' h1

/-- Whole programs: in every node `.node c _ _ args` occurring anywhere in a well-typed program,
every field declared with a refinement `(name, Annotated[t, mh])` at position `i` holds a value
that satisfies `mh` read against the actual earlier siblings (`siblings`: declared names zipped
with the actual values at positions `< i`).  Together with C01 (`C01_create_wt`, `C01_mapGE_wt`,
`C01_mutate_wt`, `C01_crossover_wt`, `C01_ops_wt`, …) this covers every program the library
creates, maps, mutates or crosses over. -/
theorem C02_program_refinements (g : Grammar) (deps : List (String × Val)) (ty : Ty) (v : Val)
    (h : wt g deps ty v = true) (c d e : Nat) (args : List Val)
    (hx : Val.node c d e args ∈ v.subvalues)
    (i : Nat) (name : String) (t : Ty) (mh : MH)
    (hf : (g.cls c).fields[i]? = some (name, .ann t mh)) :
    ∃ a, args[i]? = some a ∧ sat mh (siblings (g.cls c).fields args i) a = true := by
  have hn : wt g [] (.cls c) (.node c d e args) = true := sub_selfWt g v deps ty h _ hx
  rw [wt] at hn
  simp only [Bool.and_eq_true] at hn
  have := wtFields_sat g _ _ [] i name t mh hn.2 hf
  simpa using this

/-- … in particular for programs: `start`-typed values under no siblings. -/
theorem C02_program_refinements_start (g : Grammar) (v : Val)
    (h : wt g [] (.cls g.spec.start) v = true) (c d e : Nat) (args : List Val)
    (hx : Val.node c d e args ∈ v.subvalues)
    (i : Nat) (name : String) (t : Ty) (mh : MH)
    (hf : (g.cls c).fields[i]? = some (name, .ann t mh)) :
    ∃ a, args[i]? = some a ∧ sat mh (siblings (g.cls c).fields args i) a = true :=
  C02_program_refinements g [] _ v h c d e args hx i name t mh hf

/-- refined element types: every element of a well-typed `list[Annotated[t, mh]]` satisfies `mh` -/
theorem C02_list_elements_sat (g : Grammar) (deps : List (String × Val)) (t : Ty) (mh : MH)
    (d e : Nat) (vs : List Val) (h : wt g deps (.list (.ann t mh)) (.list d e vs) = true) :
    ∀ a ∈ vs, sat mh [] a = true := by
  rw [wt] at h
  induction vs with
  | nil => intro a ha; cases ha
  | cons v vs ih =>
    rw [wtAll, Bool.and_eq_true, wt, Bool.and_eq_true] at h
    intro a ha
    rcases List.mem_cons.1 ha with rfl | ha
    · exact h.1.2
    · exact ih h.2 a ha

/-- refined alternatives: a well-typed value of a union is a well-typed value of one of the
alternatives (so, if that alternative is `Annotated[t, mh]`, it satisfies `mh`) -/
theorem C02_union_member (g : Grammar) (deps : List (String × Val)) (ts : List Ty) (v : Val)
    (h : wt g deps (.union ts) v = true) : ∃ t ∈ ts, wt g deps t v = true := by
  rw [wt] at h
  induction ts with
  | nil => simp [wtUnion] at h
  | cons t ts ih =>
    rw [wtUnion, Bool.or_eq_true] at h
    rcases h with h | h
    · exact ⟨t, List.mem_cons_self, h⟩
    · obtain ⟨t', ht', hw⟩ := ih h
      exact ⟨t', List.mem_cons_of_mem _ ht', hw⟩

/-- Generator / validator agreement: each (non-dependent) refinement's own validity check, as
repaired for `IntervalRange`, accepts every value its generator can produce — including
`min == max`, empty-allowed lists and one-letter alphabets (all parameters are universally
quantified).  `Dependent.validate` raises `NotImplementedError` in the real code; for dependent
refinements see `C02_dependent_resolved`. -/
theorem C02_validate_generate (g : Grammar) (dec : Decider) (fuel : Nat) (t : Ty) (mh : MH)
    (ctx : Ctx) (deps : List (String × Val)) (s s' : SynSt) (v : Val)
    (hnd : mh.isDep = false) (hok : mhOK mh = true)
    (h : createNode g dec fuel (.ann t mh) ctx deps s = .ok v s') : validate mh v = true :=
  validate_of_sat mh deps v hnd (gen_sat_nodep g dec fuel t mh ctx deps s s' v hnd hok h)

/-- the documented predicate implies the validity check … -/
theorem C02_validate_of_sat (mh : MH) (deps : List (String × Val)) (v : Val)
    (hnd : mh.isDep = false) (h : sat mh deps v = true) : validate mh v = true :=
  validate_of_sat mh deps v hnd h

/-- … and conversely, except for `IntervalRange`, whose `validate` does not check `0 <= start`
(witness below). -/
theorem C02_sat_of_validate (mh : MH) (deps : List (String × Val)) (v : Val)
    (hnd : mh.isDep = false) (hni : ∀ a b c, mh ≠ .interval a b c)
    (h : validate mh v = true) : sat mh deps v = true :=
  sat_of_validate mh deps v hnd hni h

theorem C02_interval_validate_witness :
    validate (.interval 1 3 10) (.tuple [.int (-1), .int 1]) = true ∧
    sat (.interval 1 3 10) [] (.tuple [.int (-1), .int 1]) = false := by decide

/-- why `depsOK` is needed: under `Dependent("n", λ n. ListSizeBetween(n, n))` with `n = -1` the
generator succeeds with the empty list, which does not have length `n`. -/
theorem C02_negative_size_witness :
    ∃ v s', createNode exGWT ⟨.grow, 3⟩ 5 (.ann (.list .int) (.depListSize "n")) ⟨0, 0⟩
        [("n", .int (-1))] (exStWT []) = .ok v s' ∧
      sat (.depListSize "n") [("n", .int (-1))] v = false :=
  ⟨.list 0 0 [], _, rfl, by decide⟩

/-! ### Non-vacuity -/

example : mhOK (.strSize 1 2 ["a", "b"]) = true := by decide
example : mhOK (.strSize 1 2 ["ab"]) = false := by decide
-- boundary parameters: min == max, empty-allowed list, one-letter alphabet
example : resIsOk (createNode exGWT ⟨.grow, 3⟩ 5 (.ann .int (.intRange 4 4)) ⟨0, 0⟩ [] (exStWT [7])) = true := by
  decide
example : resIsOk (createNode exGWT ⟨.grow, 3⟩ 5 (.ann (.list .bool) (.listSize 0 0)) ⟨0, 0⟩ [] (exStWT [7])) = true := by
  decide +kernel
example : resIsOk (createNode exGWT ⟨.grow, 3⟩ 5 (.ann .str (.strSize 2 2 ["x"])) ⟨0, 0⟩ [] (exStWT [7])) = true := by
  decide +kernel
example : resIsOk (createNode exGWT ⟨.grow, 3⟩ 5 (.ann (.tuple [.int, .int]) (.interval 1 2 3)) ⟨0, 0⟩ []
    (exStWT [0, 2])) = true := by decide +kernel
-- dependent refinement read against the actual sibling
example : resIsOk (createNode exGWT ⟨.grow, 3⟩ 5 (.ann .int (.depIntRangeLo "a" 9)) ⟨0, 0⟩ [("a", .int 7)]
    (exStWT [1])) = true := by decide +kernel
example : ∃ v s', createNode exGWT ⟨.grow, 3⟩ 5 (.ann .int (.depIntRangeLo "a" 9)) ⟨0, 0⟩ [("a", .int 7)]
    (exStWT [1]) = .ok v s' ∧ sat (.depIntRangeLo "a" 9) [("a", .int 7)] v = true := by
  obtain ⟨v, s', h⟩ := (resIsOk_iff _).1
    (show resIsOk (createNode exGWT ⟨.grow, 3⟩ 5 (.ann .int (.depIntRangeLo "a" 9)) ⟨0, 0⟩ [("a", .int 7)]
      (exStWT [1])) = true by decide +kernel)
  exact ⟨v, s', h, C02_generate_sat _ _ _ _ _ _ _ _ _ _ (by decide) (by decide) h⟩
-- a refinement that reads TWO siblings, named (width, lower bound) whatever the order of the fields:
-- Dependent("w,lo", λ w lo. IntRange(lo, lo + w)) with lo = 100 declared before w = 3
example : ∃ v s', createNode exGWT ⟨.grow, 3⟩ 5 (.ann .int (.depIntRangeSpan "w" "lo")) ⟨0, 0⟩
      [("lo", .int 100), ("w", .int 3)] (exStWT [2]) = .ok v s' ∧
    sat (.depIntRangeSpan "w" "lo") [("lo", .int 100), ("w", .int 3)] v = true := by
  obtain ⟨v, s', h⟩ := (resIsOk_iff _).1
    (show resIsOk (createNode exGWT ⟨.grow, 3⟩ 5 (.ann .int (.depIntRangeSpan "w" "lo")) ⟨0, 0⟩
      [("lo", .int 100), ("w", .int 3)] (exStWT [2])) = true by decide +kernel)
  exact ⟨v, s', h, C02_generate_sat _ _ _ _ _ _ _ _ _ _ (by decide) (by decide) h⟩
-- the two siblings are not interchangeable: 102 lies in [lo, lo + w] = [100, 103], not in [w, w + lo] = [3, 103] read the other way round ... 50 does
example : sat (.depIntRangeSpan "w" "lo") [("lo", .int 100), ("w", .int 3)] (.int 102) = true ∧
    sat (.depIntRangeSpan "w" "lo") [("lo", .int 100), ("w", .int 3)] (.int 50) = false ∧
    sat (.depIntRangeSpan "lo" "w") [("lo", .int 100), ("w", .int 3)] (.int 50) = true := by decide
-- a refined field of the example grammar: `Vec.xs` at position 1 depends on `Vec.n`
example : (exGWT.cls 3).fields[1]? = some ("xs", .ann (.list (.cls 0)) (.depListSize "n")) := rfl
example : siblings (exGWT.cls 3).fields [.int 2, .list 0 0 [], .tuple [], .str "a"] 1 = [("n", .int 2)] := rfl

/-! ### The stack machine violates refinements

`create_tree_using_stacks` builds the value of a refined symbol `Annotated[base, mh]` by calling
`base()` and never consults `mh`.  Machine-checked counterpart of the open finding
`Stack.genotype_to_phenotype / refinement-violated`. -/

open GEVerif.StackLemmas in
/-- For `Root(x: Annotated[int, IntRange(2, 4)])` and the genotype `[0, 200000, 0]` the stack
machine returns `Root(0)`: the refined field holds `0 ∉ [2, 4]`, the program is ill-typed for the
grammar — and well-typed for it once the refinement is erased (`C01_mapStack_wt_erased`): the
refinement is the only thing wrong with it. -/
theorem C02_stack_refinement_witness :
    (stackRefG.cls 0).fields = [("x", .ann .int (.intRange 2 4))] ∧
    Stack.mapStack stackRefG stackRefOrder 100 10 [0, 200000, 0] =
      .ok (.node 0 0 0 [.int 0]) { src := .gene { dna := [0, 200000, 0], index := 2 } } ∧
    sat (.intRange 2 4) [] (.int 0) = false ∧
    wt stackRefG [] (.cls stackRefG.spec.start) (.node 0 0 0 [.int 0]) = false ∧
    wt (stripG stackRefG) [] (.cls stackRefG.spec.start) (.node 0 0 0 [.int 0]) = true := by
  have hrun : Stack.mapStack stackRefG stackRefOrder 100 10 [0, 200000, 0] =
      .ok (.node 0 0 0 [.int 0]) { src := .gene { dna := [0, 200000, 0], index := 2 } } := by rfl
  refine ⟨by rfl, hrun, by decide, ?_, ?_⟩
  · have hf : (stackRefG.cls 0).fields = [("x", .ann .int (.intRange 2 4))] := by rfl
    have hs : stackRefG.spec.start = 0 := rfl
    rw [hs, wt]
    simp only [hf]
    simp [wtFields, wt, sat]
  · exact mapStack_wtS stackRefG (GWF_of_grammarWF _ (by decide)).alts stackRefOrder (by decide)
      (by decide) _ _ _ _ _ hrun

open GEVerif.StackLemmas in
/-- the same through `C02_program_refinements_start`: in a well-typed program the field `x` would
satisfy its refinement -/
example : ¬ wt stackRefG [] (.cls stackRefG.spec.start) (.node 0 0 0 [.int 0]) = true := by
  intro hw
  obtain ⟨a, ha, hsat⟩ := C02_program_refinements_start stackRefG _ hw 0 0 0 [.int 0]
    (by simp [Val.subvalues]) 0 "x" .int (.intRange 2 4) (by rfl)
  simp only [List.getElem?_cons_zero, Option.some.injEq] at ha
  subst ha
  simp [sat] at hsat

/-! ## The refinement's own variation operators

`StringSizeBetween.mutate` / `.crossover` are what the tree representation calls whenever a refined string field is picked for
variation; users call them directly as well.  Modelled in Model/StrOps.lean over an arbitrary random source. -/

section StringOperators
open GEVerif.StrOps
variable {σ α : Type} (src : Source σ)

/-- **`StringSizeBetween.mutate` stays inside the refinement**, for every bound pair (equal bounds included), every current string
inside it, every alphabet and every outcome of the draws. -/
theorem C02_string_mutate_sat (hs : src.Sound) (lo hi : Nat) (al cur : List α) (s : σ) (out : List α) (s' : σ)
    (hcur : InRange lo hi al cur) (h : strMutate src lo hi al cur s = (some out, s')) : InRange lo hi al out := by
  obtain ⟨h1, h2, h3⟩ := hcur
  unfold strMutate at h
  simp only at h
  split at h
  · next hc =>
    split at h
    · next i s2 hi' =>
      have hb := randintE_bounds src hs _ _ _ _ _ hi'
      simp only [Prod.mk.injEq, Option.some.injEq] at h
      obtain ⟨rfl, _⟩ := h
      refine ⟨?_, ?_, ?_⟩
      · simp only [List.length_append, List.length_take, List.length_drop]; omega
      · simp only [List.length_append, List.length_take, List.length_drop]; omega
      · intro c hc'
        rcases List.mem_append.mp hc' with hm | hm
        · exact h3 c (List.mem_of_mem_take hm)
        · exact h3 c (List.mem_of_mem_drop hm)
    · simp at h
  · split at h
    · next hc =>
      split at h
      · next c s2 hch =>
        split at h
        · next i s3 hi' =>
          have hb := randintE_bounds src hs _ _ _ _ _ hi'
          have hcm := choice_some_mem src _ _ _ _ hch
          simp only [Prod.mk.injEq, Option.some.injEq] at h
          obtain ⟨rfl, _⟩ := h
          refine ⟨?_, ?_, ?_⟩
          · simp only [List.length_append, List.length_take, List.length_cons, List.length_drop]; omega
          · simp only [List.length_append, List.length_take, List.length_cons, List.length_drop]; omega
          · intro c' hc'
            rcases List.mem_append.mp hc' with hm | hm
            · exact h3 c' (List.mem_of_mem_take hm)
            · rcases List.mem_cons.mp hm with rfl | hm
              · exact hcm
              · exact h3 c' (List.mem_of_mem_drop hm)
        · simp at h
      · simp at h
    · split at h
      · next hpos =>
        split at h
        · next i s2 hi' =>
          have hb := randintE_bounds src hs _ _ _ _ _ hi'
          split at h
          · next c s3 hch =>
            have hcm := choice_some_mem src _ _ _ _ hch
            simp only [Prod.mk.injEq, Option.some.injEq] at h
            obtain ⟨rfl, _⟩ := h
            refine ⟨?_, ?_, ?_⟩
            · simp only [List.length_append, List.length_take, List.length_cons, List.length_drop]; omega
            · simp only [List.length_append, List.length_take, List.length_cons, List.length_drop]; omega
            · intro c' hc'
              rcases List.mem_append.mp hc' with hm | hm
              · exact h3 c' (List.mem_of_mem_take hm)
              · rcases List.mem_cons.mp hm with rfl | hm
                · exact hcm
                · exact h3 c' (List.mem_of_mem_drop hm)
          · simp at h
        · simp at h
      · simp only [Prod.mk.injEq, Option.some.injEq] at h
        obtain ⟨rfl, _⟩ := h
        exact ⟨h1, h2, h3⟩

/-- **`StringSizeBetween.crossover` stays inside the refinement** when the current string and every mate are inside it. -/
theorem C02_string_crossover_sat (hs : src.Sound) (lo hi : Nat) (al : List α) (mates : List (List α)) (cur : List α) (s : σ)
    (out : List α) (s' : σ) (hcur : InRange lo hi al cur) (hm : ∀ m ∈ mates, InRange lo hi al m)
    (h : strCrossover src lo hi mates cur s = (some out, s')) : InRange lo hi al out := by
  unfold strCrossover at h
  split at h
  · simp only [Prod.mk.injEq, Option.some.injEq] at h
    obtain ⟨rfl, _⟩ := h
    exact hcur
  · split at h
    · next size s1 hsz =>
      split at h
      · next mid s2 hmid =>
        split at h
        · next other s3 hch =>
          have hb := randintE_bounds src hs _ _ _ _ _ hmid
          obtain ⟨o1, o2, o3⟩ := hm other (choice_some_mem src _ _ _ _ hch)
          obtain ⟨c1, c2, c3⟩ := hcur
          simp only [Prod.mk.injEq, Option.some.injEq] at h
          obtain ⟨rfl, _⟩ := h
          refine ⟨?_, ?_, ?_⟩
          · simp only [List.length_append, List.length_take, List.length_drop]; omega
          · simp only [List.length_append, List.length_take, List.length_drop]; omega
          · intro c hc
            rcases List.mem_append.mp hc with hx | hx
            · exact c3 c (List.mem_of_mem_take hx)
            · exact o3 c (List.mem_of_mem_drop hx)
        · simp at h
      · simp at h
    · simp at h

/-- the statement is not vacuous: a string at BOTH bounds (lo = hi = 2), every operation drawn -/
example : ∀ m ∈ [0, 1, 2], ∀ out s', strMutate scripted 2 2 ["x", "y", "z"] ["x", "y"] ⟨[m, 1, 2], 0⟩ = (some out, s') →
    InRange 2 2 ["x", "y", "z"] out := by
  intro m _ out s' h
  exact C02_string_mutate_sat scripted C18.C18_scripted_sound 2 2 _ _ _ out s' ⟨by decide, by decide, by decide⟩ h

example : (strMutate scripted 2 2 ["x", "y", "z"] ["x", "y"] ⟨[0, 1, 2], 0⟩).1 = some ["x", "z"] := by decide
example : (strMutate scripted 1 3 ["a", "b"] ["a", "b"] ⟨[1, 1, 1], 0⟩).1 = some ["a", "b", "b"] := by decide
example : (strMutate scripted 0 3 ["a", "b"] [] ⟨[1, 1, 1], 0⟩).1 = none := by decide

/-- **Every generated string has one letter per row, and at a usable row never a letter of probability 0** -- for every matrix,
every sound source and every state of it.  (Rows without usable weight fall back to a uniform letter.) -/
theorem C02_weighted_string_sat (hs : src.Sound) (den : Nat) (rows : List (List Nat)) (hne : ∀ row ∈ rows, row ≠ []) (s : σ) :
    ∃ out, (wsGenerate src den rows s).1 = some out ∧ out.length = rows.length ∧
      ∀ p (hp : p < rows.length), out.getD p 0 < rows[p].length ∧ (rowUsable den rows[p] → 0 < rows[p].getD (out.getD p 0) 0) := by
  induction rows generalizing s with
  | nil => exact ⟨[], rfl, rfl, fun p hp => absurd hp (by simp)⟩
  | cons row rows ih =>
    have hrow : row ≠ [] := hne row List.mem_cons_self
    have hlen : 0 < row.length := List.length_pos_iff.mpr hrow
    -- the first letter
    have hfirst : ∃ i, (choiceWeightedIdx src (accScaled den row) row.length s).1 = some i ∧ i < row.length ∧
        (rowUsable den row → 0 < row.getD i 0) := by
      by_cases hu : 0 < (accScaled den row).getLastD 0
      · obtain ⟨i, h1, h2, h3⟩ := C18.C18_choice_weighted_sound src hs den row s hu
        exact ⟨i, h1, h2, fun _ => h3⟩
      · obtain ⟨i, h1, h2⟩ := C18.C18_choice_weighted_all_zero src hs (accScaled den row) row.length s (by omega) hlen
        exact ⟨i, h1, h2, fun h => absurd h hu⟩
    obtain ⟨i, hi, hilt, hipos⟩ := hfirst
    obtain ⟨out, ho, hol, hall⟩ := ih (fun r hr => hne r (List.mem_cons_of_mem _ hr)) (choiceWeightedIdx src (accScaled den row) row.length s).2
    refine ⟨i :: out, ?_, by simp [hol], ?_⟩
    · unfold wsGenerate
      have : choiceWeightedIdx src (accScaled den row) row.length s = (some i, (choiceWeightedIdx src (accScaled den row) row.length s).2) := by
        rw [← hi]
      rw [this]
      simp only
      have h2 : wsGenerate src den rows (choiceWeightedIdx src (accScaled den row) row.length s).2 =
          (some out, (wsGenerate src den rows (choiceWeightedIdx src (accScaled den row) row.length s).2).2) := by
        rw [← ho]
      rw [h2]
    · intro p hp
      cases p with
      | zero => exact ⟨by simpa using hilt, by simpa using hipos⟩
      | succ q =>
        have hq : q < rows.length := by simpa using hp
        simpa using hall q hq

/-- a row whose FIRST letters have probability 0, the draw 0 included (scripted source) -/
example : (wsGenerate scripted 4 [[0, 2, 1, 1], [0, 0, 4, 0]] ⟨[0, 0], 0⟩).1 = some [1, 2] := by decide

end StringOperators

end GEVerif.C02
