import GEVerif.Model.Sexp
import GEVerif.Model.Rand
import GEVerif.Drive.C18
import GEVerif.Props.C18
