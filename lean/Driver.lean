/-
  Line-protocol driver.  Reads one s-expression per line `(Cxx op args…)`, runs the model
  (or the Lean-side property predicate) and prints one line: the result, or `bad-op`.
  Imports only `Model/` and `Drive/` (no Mathlib, no proofs) so it links as a native executable.
-/
import GEVerif.Model.Sexp
import GEVerif.Drive.C01
import GEVerif.Drive.C02
import GEVerif.Drive.C03
import GEVerif.Drive.C04
import GEVerif.Drive.C05
import GEVerif.Drive.C06
import GEVerif.Drive.C07
import GEVerif.Drive.C08
import GEVerif.Drive.C09
import GEVerif.Drive.C10
import GEVerif.Drive.C11
import GEVerif.Drive.C12
import GEVerif.Drive.C13
import GEVerif.Drive.C14
import GEVerif.Drive.C15
import GEVerif.Drive.C16
import GEVerif.Drive.C17
import GEVerif.Drive.C18
import GEVerif.Drive.C19
import GEVerif.Drive.C20

open GEVerif

def dispatch (line : String) : String :=
  match Sexp.parse line with
  | some (Sexp.list (Sexp.atom p :: rest)) =>
    let r : Option Sexp :=
      match p with
      | "C01" => Drive.C01.handle rest
      | "C02" => Drive.C02.handle rest
      | "C03" => Drive.C03.handle rest
      | "C04" => Drive.C04.handle rest
      | "C05" => Drive.C05.handle rest
      | "C06" => Drive.C06.handle rest
      | "C07" => Drive.C07.handle rest
      | "C08" => Drive.C08.handle rest
      | "C09" => Drive.C09.handle rest
      | "C10" => Drive.C10.handle rest
      | "C11" => Drive.C11.handle rest
      | "C12" => Drive.C12.handle rest
      | "C13" => Drive.C13.handle rest
      | "C14" => Drive.C14.handle rest
      | "C15" => Drive.C15.handle rest
      | "C16" => Drive.C16.handle rest
      | "C17" => Drive.C17.handle rest
      | "C18" => Drive.C18.handle rest
      | "C19" => Drive.C19.handle rest
      | "C20" => Drive.C20.handle rest
      | _ => none
    match r with
    | some s => toString s
    | none => "bad-op"
  | _ => "bad-op"

partial def loop (h : IO.FS.Stream) (out : IO.FS.Stream) : IO Unit := do
  let line ← h.getLine
  if line.isEmpty then return ()
  out.putStrLn (dispatch line)
  loop h out

def main : IO Unit := do
  let stdin ← IO.getStdin
  let stdout ← IO.getStdout
  loop stdin stdout
  stdout.flush
