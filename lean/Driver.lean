/-
  Line-protocol driver.  Reads one s-expression per line `(Cxx op args…)`, runs the model
  (or the Lean-side property predicate) and prints one line: the result, or `bad-op`.
  Imports only `Model/` and `Drive/` (no Mathlib, no proofs) so it links as a native executable.
-/
import GEVerif.Model.Sexp
import GEVerif.Drive.C18

open GEVerif

def dispatch (line : String) : String :=
  match Sexp.parse line with
  | some (Sexp.list (Sexp.atom p :: rest)) =>
    let r : Option Sexp :=
      match p with
      | "C18" => Drive.C18.handle rest
      | _ => none
    match r with
    | some s => toString s
    | none => "bad-op"
  | _ => "bad-op"

partial def loop (h : IO.FS.Stream) (out : IO.FS.Stream) : IO Unit := do
  let line ← h.getLine
  if line.isEmpty then return ()
  out.putStrLn (dispatch line)
  loop h out

def main : IO Unit := do
  let stdin ← IO.getStdin
  let stdout ← IO.getStdout
  loop stdin stdout
  stdout.flush
